//! Shared vocabulary: rank oracle, multiset witness, carved 1-D / 2-D views with
//! guard cells, layout menus. Everything here is harness code (plain loops over
//! plain arrays); none of it models the crate under verification.
use ndarray::prelude::*;

/// Buffer position of logical element `t` of a 1-D view of length `len` carved
/// with `carve1(.., layout, len)`.
///  0: unit stride at offset 0          1: stride 2 at offset 1
///  2: stride 3 at offset 2             3: reversed unit stride (offset 0)
///  4: reversed stride 2 (cells 1,3,5.. read backwards)
#[inline(always)]
pub fn pos1(layout: u8, len: usize, t: usize) -> usize {
    match layout {
        0 => t,
        1 => 1 + 2 * t,
        2 => 2 + 3 * t,
        3 => len - 1 - t,
        _ => 1 + 2 * (len - 1 - t),
    }
}

/// Minimal buffer size for `carve1(.., layout, len)`.
pub const fn need1(layout: u8, len: usize) -> usize {
    if len == 0 {
        return 3;
    }
    match layout {
        0 | 3 => len,
        1 | 4 => 2 * len + 1,
        _ => 3 * len + 1,
    }
}

/// A mutable 1-D view of `len` elements inside `buf`; strides are concrete on
/// every branch.
pub fn carve1<'a, T>(buf: &'a mut [T], layout: u8, len: usize) -> ArrayViewMut1<'a, T> {
    let a = ArrayViewMut1::from(buf);
    if len == 0 {
        return a.slice_move(s![1..1]);
    }
    match layout {
        0 => a.slice_move(s![0..len]),
        1 => a.slice_move(s![1..2 * len; 2]),
        2 => a.slice_move(s![2..3 * len; 3]),
        3 => a.slice_move(s![0..len; -1]),
        _ => a.slice_move(s![1..2 * len; -2]),
    }
}

/// Is buffer cell `c` one of the cells addressed by the carved view?
pub fn in_view1(layout: u8, len: usize, c: usize) -> bool {
    let mut t = 0;
    while t < len {
        if pos1(layout, len, t) == c {
            return true;
        }
        t += 1;
    }
    false
}

/// `r` is what a full sort of `vals[..n]` places at position `i`.
pub fn rank_ok<T: Ord>(vals: &[T], n: usize, r: &T, i: usize) -> bool {
    let mut lt = 0usize;
    let mut le = 0usize;
    let mut t = 0;
    while t < n {
        if vals[t] < *r {
            lt += 1;
        }
        if vals[t] <= *r {
            le += 1;
        }
        t += 1;
    }
    lt <= i && i < le
}

pub fn count_eq<T: PartialEq>(vals: &[T], n: usize, w: &T) -> usize {
    let mut c = 0usize;
    let mut t = 0;
    while t < n {
        if vals[t] == *w {
            c += 1;
        }
        t += 1;
    }
    c
}
