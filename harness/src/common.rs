//! Shared vocabulary: rank oracle, multiset witness, carved 1-D / 2-D views with
//! guard cells, layout menus. Everything here is harness code (plain loops over
//! plain arrays); none of it models the crate under verification.
use ndarray::prelude::*;

/// Buffer position of logical element `t` of a 1-D view of length `len` carved
/// with `carve1(.., layout, len)`.
///  0: unit stride at offset 0          1: stride 2 at offset 1
///  2: stride 3 at offset 2             3: reversed unit stride (offset 0)
///  4: reversed stride 2 (cells 1,3,5.. read backwards)
#[inline(always)]
pub fn pos1(layout: u8, len: usize, t: usize) -> usize {
    match layout {
        0 => t,
        1 => 1 + 2 * t,
        2 => 2 + 3 * t,
        3 => len - 1 - t,
        _ => 1 + 2 * (len - 1 - t),
    }
}

/// Minimal buffer size for `carve1(.., layout, len)`.
pub const fn need1(layout: u8, len: usize) -> usize {
    if len == 0 {
        return 3;
    }
    match layout {
        0 | 3 => len,
        1 | 4 => 2 * len + 1,
        _ => 3 * len + 1,
    }
}

/// A mutable 1-D view of `len` elements inside `buf`; strides are concrete on
/// every branch.
pub fn carve1<'a, T>(buf: &'a mut [T], layout: u8, len: usize) -> ArrayViewMut1<'a, T> {
    let a = ArrayViewMut1::from(buf);
    if len == 0 {
        return a.slice_move(s![1..1]);
    }
    match layout {
        0 => a.slice_move(s![0..len]),
        1 => a.slice_move(s![1..2 * len; 2]),
        2 => a.slice_move(s![2..3 * len; 3]),
        3 => a.slice_move(s![0..len; -1]),
        _ => a.slice_move(s![1..2 * len; -2]),
    }
}

/// Is buffer cell `c` one of the cells addressed by the carved view?
pub fn in_view1(layout: u8, len: usize, c: usize) -> bool {
    let mut t = 0;
    while t < len {
        if pos1(layout, len, t) == c {
            return true;
        }
        t += 1;
    }
    false
}

/// `r` is what a full sort of `vals[..n]` places at position `i`.
pub fn rank_ok<T: Ord>(vals: &[T], n: usize, r: &T, i: usize) -> bool {
    let mut lt = 0usize;
    let mut le = 0usize;
    let mut t = 0;
    while t < n {
        if vals[t] < *r {
            lt += 1;
        }
        if vals[t] <= *r {
            le += 1;
        }
        t += 1;
    }
    lt <= i && i < le
}

pub fn count_eq<T: PartialEq>(vals: &[T], n: usize, w: &T) -> usize {
    let mut c = 0usize;
    let mut t = 0;
    while t < n {
        if vals[t] == *w {
            c += 1;
        }
        t += 1;
    }
    c
}

// ------------------------------------------------------------------ 2-D layout menu
//
// A logical R x C array is given by `vals[i * C + j]`. `parent2` stores it in a parent
// allocation whose geometry depends on `layout`; `view2` / `view2_mut` carve the logical array
// back out (strides concrete on every branch):
//   0: C-order, owned                      1: F-order (column-major)
//   2: every second row and column of a (2R+1) x (2C+1) parent, offset (1,1)
//   3: both axes reversed                  4: F-order parent, rows reversed
//   5: C-order parent, rows reversed (contiguous, last axis stride +1)
//   6: C-order parent, columns reversed
pub const LAYOUTS_2D: u8 = 7;

pub fn parent2<T: Copy>(vals: &[T], r: usize, c: usize, layout: u8, fill: T) -> Array2<T> {
    match layout {
        0 => Array2::from_shape_fn((r, c), |(i, j)| vals[i * c + j]),
        1 => Array2::from_shape_fn((r, c).f(), |(i, j)| vals[i * c + j]),
        2 => Array2::from_shape_fn((2 * r + 1, 2 * c + 1), |(a, b)| {
            if a % 2 == 1 && b % 2 == 1 {
                vals[(a / 2) * c + b / 2]
            } else {
                fill
            }
        }),
        3 => Array2::from_shape_fn((r, c), |(i, j)| vals[(r - 1 - i) * c + (c - 1 - j)]),
        4 => Array2::from_shape_fn((r, c).f(), |(i, j)| vals[(r - 1 - i) * c + j]),
        5 => Array2::from_shape_fn((r, c), |(i, j)| vals[(r - 1 - i) * c + j]),
        _ => Array2::from_shape_fn((r, c), |(i, j)| vals[i * c + (c - 1 - j)]),
    }
}

pub fn view2<'a, T>(p: &'a Array2<T>, layout: u8) -> ArrayView2<'a, T> {
    match layout {
        0 | 1 => p.view(),
        2 => p.slice(s![1..;2, 1..;2]),
        3 => p.slice(s![..;-1, ..;-1]),
        4 | 5 => p.slice(s![..;-1, ..]),
        _ => p.slice(s![.., ..;-1]),
    }
}

pub fn view2_mut<'a, T>(p: &'a mut Array2<T>, layout: u8) -> ArrayViewMut2<'a, T> {
    match layout {
        0 | 1 => p.view_mut(),
        2 => p.slice_mut(s![1..;2, 1..;2]),
        3 => p.slice_mut(s![..;-1, ..;-1]),
        4 | 5 => p.slice_mut(s![..;-1, ..]),
        _ => p.slice_mut(s![.., ..;-1]),
    }
}

/// Read logical element (i, j) straight from the parent allocation (independent of `view2`).
pub fn at2<T: Copy>(p: &Array2<T>, r: usize, c: usize, layout: u8, i: usize, j: usize) -> T {
    match layout {
        0 | 1 => p[[i, j]],
        2 => p[[1 + 2 * i, 1 + 2 * j]],
        3 => p[[r - 1 - i, c - 1 - j]],
        4 | 5 => p[[r - 1 - i, j]],
        _ => p[[i, c - 1 - j]],
    }
}

/// Is parent cell (a, b) one of the cells of the logical array?
pub fn in_view2(layout: u8, a: usize, b: usize) -> bool {
    match layout {
        2 => a % 2 == 1 && b % 2 == 1,
        _ => true,
    }
}

/// A symbolic layout selector restricted to `mask` (bit k set = layout k allowed).
pub fn pick_layout(mask: u8) -> u8 {
    let l: u8 = kani::any();
    kani::assume(l < LAYOUTS_2D && (mask >> l) & 1 == 1);
    l
}
