//! C08 — covariance and Pearson correlation follow their definitions (decided at the exact scalar Q:
//! at f32/f64 `cov` goes through matrixmultiply, whose kernel selection executes `cpuid`).
use crate::common::*;
use crate::q::Q;
use ndarray::prelude::*;
use ndarray_stats::errors::EmptyInput;
use ndarray_stats::CorrelationExt;

fn small() -> i64 {
    let b: u8 = kani::any();
    (b & 3) as i64
}

/// cov(ddof) of a V x N matrix (V variables in rows, N observations in columns) against
/// cov_ij = sum_k (N x_ik - S_i)(N x_jk - S_j) / (N^2 (N - ddof)).
fn cov_q<const V: usize, const N: usize, const VN: usize>(layout: u8, ddof: i64) {
    let mut x = [0i64; VN];
    let mut xq = [Q::int(0); VN];
    let mut k = 0;
    while k < VN {
        x[k] = small();
        xq[k] = Q::int(x[k]);
        k += 1;
    }
    let p = parent2(&xq, V, N, layout, Q::int(5));
    let a = view2(&p, layout);
    let c = a.cov(Q::int(ddof)).unwrap();
    assert!(c.shape()[0] == V && c.shape()[1] == V, "one row and one column per variable");
    let n = N as i64;
    let mut s = [0i64; V];
    let mut i = 0;
    while i < V {
        let mut t = 0;
        while t < N {
            s[i] += x[i * N + t];
            t += 1;
        }
        i += 1;
    }
    let mut i = 0;
    while i < V {
        let mut j = 0;
        while j < V {
            let mut acc = 0i64;
            let mut t = 0;
            while t < N {
                acc += (n * x[i * N + t] - s[i]) * (n * x[j * N + t] - s[j]);
                t += 1;
            }
            assert!(c[(i, j)] == Q { n: acc, d: n * n * (n - ddof) }, "cov[i][j] follows the definition (observations along the columns)");
            assert!(c[(i, j)] == c[(j, i)], "symmetric");
            j += 1;
        }
        assert!(c[(i, i)] >= Q::int(0), "diagonal non-negative");
        i += 1;
    }
    kani::cover!(c[(0, V - 1)] < Q::int(0), "W: a negative covariance");
    kani::cover!(c[(0, 0)] == Q::int(0) && c[(V - 1, V - 1)] > Q::int(0), "W: one constant variable");
}

//@ prop=C08,C20:thorough tier=quick mem=14 timeout=3600 uses=Q inst="cov(ddof=1) on ArrayView2<Q> 2 variables x 2 observations, F-order (contiguous, not standard layout)" bounds="payloads 0..=3; unwind 18"
#[kani::proof]
#[kani::unwind(18)]
fn c08_cov_q_2x2_ddof1_f() {
    cov_q::<2, 2, 4>(1, 1);
}
// (not registered: not verified to finish within the session's budget on this machine) prop=C08 tier=thorough mem=14 timeout=7200 uses=Q inst="cov(ddof=1) on ArrayView2<Q> 2 variables x 2 observations, C-order" bounds="payloads 0..=3; unwind 18"
#[allow(dead_code)]
// #[kani::unwind(18)]
fn c08_cov_q_2x2_ddof1_c() {
    cov_q::<2, 2, 4>(0, 1);
}
// (not registered: not verified to finish within the session's budget on this machine) prop=C08,C20 tier=thorough mem=16 timeout=7200 uses=Q inst="cov(ddof=0) on ArrayView2<Q> 2 variables x 3 observations, F-order" bounds="payloads 0..=3; unwind 18"
#[allow(dead_code)]
// #[kani::unwind(18)]
fn c08_cov_q_2x3_ddof0_f() {
    cov_q::<2, 3, 6>(1, 0);
}
// (not registered: not verified to finish within the session's budget on this machine) prop=C08,C20 tier=thorough mem=16 timeout=7200 uses=Q inst="cov(ddof=1) on ArrayView2<Q> 3 variables x 2 observations, both axes reversed" bounds="payloads 0..=3; unwind 18"
#[allow(dead_code)]
// #[kani::unwind(18)]
fn c08_cov_q_3x2_ddof1_rev() {
    cov_q::<3, 2, 6>(3, 1);
}
// (not registered: not verified to finish within the session's budget on this machine) prop=C08,C20 tier=thorough mem=16 timeout=7200 uses=Q inst="cov(ddof=0) on ArrayView2<Q> 2 variables x 2 observations, stepped view" bounds="payloads 0..=3; unwind 18"
#[allow(dead_code)]
// #[kani::unwind(18)]
fn c08_cov_q_2x2_ddof0_stepped() {
    cov_q::<2, 2, 4>(2, 0);
}

/// ddof >= number of observations is rejected by the documented panic.
// (not registered: not verified to finish within the session's budget on this machine) prop=C08 tier=thorough kind=panic mem=8 timeout=3600 uses=Q inst="cov(ddof) on Array2<Q> 2x2 with ddof >= 2" bounds="ddof in {2, 3}; unwind 18"
#[allow(dead_code)]
// #[kani::unwind(18)]
// #[kani::should_panic]
fn c08_cov_q_bad_ddof_panics() {
    let a = Array2::from_shape_vec((2, 2), vec![Q::int(1), Q::int(2), Q::int(3), Q::int(5)]).unwrap();
    let d: i64 = if kani::any() { 2 } else { 3 };
    kani::cover!(d == 2, "W: ddof == n");
    let _ = a.cov(Q::int(d));
    kani::cover!(true, "NR: cov returned for ddof >= n");
}

/// pearson_correlation on 2 variables x 2 observations (variances are perfect squares there):
/// diagonal 1, off-diagonal the sign of the co-movement, symmetric.
// (not registered: not verified to finish within the session's budget on this machine) prop=C08 tier=thorough mem=16 timeout=7200 uses=Q inst="pearson_correlation on Array2<Q> 2x2" bounds="payloads 0..=3, both variables non-constant; unwind 18"
#[allow(dead_code)]
// #[kani::unwind(18)]
fn c08_pearson_q_2x2() {
    let x = [small(), small(), small(), small()];
    let d0 = x[0] - x[1];
    let d1 = x[2] - x[3];
    kani::assume(d0 != 0 && d1 != 0);
    let a = Array2::from_shape_vec((2, 2), vec![Q::int(x[0]), Q::int(x[1]), Q::int(x[2]), Q::int(x[3])]).unwrap();
    let c = a.pearson_correlation().unwrap();
    assert!(c[(0, 0)] == Q::int(1) && c[(1, 1)] == Q::int(1), "diagonal is 1");
    let sign = if (d0 > 0) == (d1 > 0) { 1 } else { -1 };
    assert!(c[(0, 1)] == Q::int(sign) && c[(1, 0)] == Q::int(sign), "cov_ij / (sigma_i sigma_j), same ddof for cov and std");
    kani::cover!(sign == -1, "W: anti-correlated");
}
