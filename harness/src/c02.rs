//! C02 — selection returns the true order statistic under every pivot sequence.
//! (The same harnesses carry the "only permutes the lane it was given" clauses of C03 and the
//! "in-range arguments never panic" clause of C16.)
use crate::common::*;
use ndarray::prelude::*;
use ndarray_stats::verif_hooks as vh;
use ndarray_stats::Sort1dExt;

pub fn arm_select_step(parent_len: usize) {
    unsafe {
        vh::SELECT_CUT_AFTER = 1;
        vh::SELECT_CALLS = 0;
        vh::STEP_PARENT_LEN = parent_len;
    }
}
pub fn arm_bulk_step(parent_len: usize) {
    unsafe {
        vh::BULK_CUT_AFTER = 1;
        vh::BULK_CALLS = 0;
        vh::STEP_PARENT_LEN = parent_len;
    }
}
/// Bulk selection replaced by its contract from the outermost call on (quantile pipeline).
pub fn arm_bulk_contract() {
    unsafe {
        vh::BULK_CUT_AFTER = 0;
        vh::BULK_CALLS = 0;
        vh::STEP_PARENT_LEN = usize::MAX;
    }
}

/// Reference model of std's unstable sort (insertion sort), used via `-Z stubbing` where a slice
/// of symbolic length is sorted.
pub fn model_sort<T, F: FnMut(&T, &T) -> bool>(v: &mut [T], is_less: &mut F) {
    let mut i = 1;
    while i < v.len() {
        let mut j = i;
        while j > 0 && is_less(&v[j], &v[j - 1]) {
            v.swap(j, j - 1);
            j -= 1;
        }
        i += 1;
    }
}

/// Inductive step of single selection: the outermost call runs the real body (real partition,
/// real branch choice, real slicing and index rebasing) with a symbolic pivot; recursive calls
/// are replaced by the contract, which asserts its precondition.
fn select_step<const B: usize>(layout: u8, maxlen: usize, cut: bool) {
    let mut buf: [u8; B] = kani::any();
    let orig = buf;
    let len: usize = kani::any();
    kani::assume(len >= 1 && len <= maxlen);
    let i: usize = kani::any();
    kani::assume(i < len);
    if cut {
        arm_select_step(len);
    }
    let r = {
        let mut v = carve1(&mut buf, layout, len);
        v.get_from_sorted_mut(i)
    };
    let mut lane0 = [0u8; B];
    let mut lane1 = [0u8; B];
    let mut t = 0;
    while t < len {
        lane0[t] = orig[pos1(layout, len, t)];
        lane1[t] = buf[pos1(layout, len, t)];
        t += 1;
    }
    assert!(rank_ok(&lane0, len, &r, i), "result is the element a full sort places at i");
    let mut t = 0;
    while t < len {
        if t < i {
            assert!(lane1[t] <= r, "elements before i are <= the result");
        } else {
            assert!(lane1[t] >= r, "elements from i on are >= the result");
        }
        t += 1;
    }
    let w: u8 = kani::any();
    assert!(count_eq(&lane0, len, &w) == count_eq(&lane1, len, &w), "lane multiset preserved");
    let mut c = 0;
    while c < B {
        if !in_view1(layout, len, c) {
            assert!(buf[c] == orig[c], "cell outside the view untouched");
        }
        c += 1;
    }
    kani::cover!(len == maxlen && i > 0 && i + 1 < len && lane0[0] != lane0[1], "W: full-length lane, interior index");
    kani::cover!(len == 1, "W: single-element lane");
}

//@ prop=C02,C03,C16:thorough tier=quick mem=4 timeout=1800 uses=cut,pivot inst="get_from_sorted_mut on ArrayViewMut1<u8>, unit stride" bounds="inductive step: len 1..=4, every i < len, every pivot, recursive calls cut to contract; unwind 6"
#[kani::proof]
#[kani::unwind(6)]
fn c02_select_step_unit_n4() {
    select_step::<4>(0, 4, true);
}

//@ prop=C02,C03 tier=thorough mem=6 timeout=5400 uses=cut,pivot inst="get_from_sorted_mut on a reversed stride-2 view in a 9-cell buffer" bounds="inductive step: len 1..=4; unwind 10"
#[kani::proof]
#[kani::unwind(10)]
fn c02_select_step_revstep2_n4() {
    select_step::<9>(4, 4, true);
}

//@ prop=C02,C03 tier=thorough mem=8 timeout=7200 uses=cut,pivot inst="get_from_sorted_mut on ArrayViewMut1<u8>, unit stride" bounds="inductive step: len 1..=5; unwind 7"
#[kani::proof]
#[kani::unwind(7)]
fn c02_select_step_unit_n5() {
    select_step::<5>(0, 5, true);
}

// (not registered: ran out of memory at 32 GB (symbolic length + full recursion)) prop=C02,C16 tier=thorough mem=12 timeout=7200 uses=pivot inst="get_from_sorted_mut on Array1<u8>, FULL recursion (no cut)" bounds="len 1..=3, every i, every pivot sequence; unwind 5"
#[allow(dead_code)]
// #[kani::unwind(5)]
fn c02_select_full_n3() {
    select_step::<3>(0, 3, false);
}

/// Inductive step of the recursive bulk routine on a lane of concrete length N (a symbolic
/// length made the propositional encoding explode: > 47 GB), every non-empty strictly increasing
/// index subset, every pivot.
fn bulk_step<const N: usize>(cut: bool) {
    let vals: [u8; N] = kani::any();
    let mask: u8 = kani::any();
    kani::assume(mask != 0 && (mask as usize) < (1usize << N));
    let mut idx = [0usize; N];
    let mut m = 0usize;
    let mut t = 0;
    while t < N {
        if mask & (1 << t) != 0 {
            idx[m] = t;
            m += 1;
        }
        t += 1;
    }
    let orig_idx = idx;
    let mut values = [0u8; N];
    let mut buf = vals;
    if cut {
        arm_bulk_step(N);
    }
    {
        let v = ArrayViewMut1::from(&mut buf[..]);
        vh::verif_get_many_rec(v, &mut idx[..m], &mut values[..m]);
    }
    let mut k = 0;
    while k < N {
        if k < m {
            assert!(rank_ok(&vals, N, &values[k], orig_idx[k]), "values[k] has rank indexes[k]");
        }
        k += 1;
    }
    let w: u8 = kani::any();
    assert!(count_eq(&vals, N, &w) == count_eq(&buf, N, &w), "lane multiset preserved");
    kani::cover!(N < 3 || (m == 2 && orig_idx[0] + 1 < orig_idx[1]), "W: two non-adjacent indexes");
    kani::cover!(m == N, "W: every index requested");
    kani::cover!(m == 1, "W: a single index");
}

//@ prop=C02,C03,C18 tier=thorough mem=8 timeout=3600 uses=cut,pivot inst="_get_many_from_sorted_mut_unchecked on ArrayViewMut1<u8>, len 4" bounds="inductive step: len 4, every non-empty strictly increasing index subset, every pivot; unwind 6"
#[kani::proof]
#[kani::unwind(6)]
fn c02_bulk_step_n4() {
    bulk_step::<4>(true);
}

//@ prop=C02,C03,C18:thorough tier=quick mem=6 timeout=2700 uses=cut,pivot inst="_get_many_from_sorted_mut_unchecked on ArrayViewMut1<u8>, len 3" bounds="inductive step: len 3, every index subset, every pivot; unwind 5"
#[kani::proof]
#[kani::unwind(5)]
fn c02_bulk_step_n3() {
    bulk_step::<3>(true);
}

//@ prop=C02,C03:thorough,C18:thorough tier=quick mem=4 timeout=1800 uses=cut,pivot inst="_get_many_from_sorted_mut_unchecked on ArrayViewMut1<u8>, len 2" bounds="inductive step: len 2, every index subset, every pivot; unwind 4"
#[kani::proof]
#[kani::unwind(4)]
fn c02_bulk_step_n2() {
    bulk_step::<2>(true);
}

// (not registered: not verified to finish within the session's budget on this machine) prop=C02 tier=thorough mem=12 timeout=10800 uses=pivot inst="_get_many_from_sorted_mut_unchecked on ArrayViewMut1<u8>, FULL recursion, len 3" bounds="len 3, every index subset, every pivot sequence; unwind 5"
#[allow(dead_code)]
// #[kani::unwind(5)]
fn c02_bulk_full_n3() {
    bulk_step::<3>(false);
}

/// Public bulk entry: request list of concrete length M over {0..N-1}, any order, repeats.
/// The recursive routine is cut to its contract at depth 0 (proved by the steps above); the
/// sort/dedup of the request list, the bounds check, the pre-allocation and the collection into
/// the map are the real code.
fn bulk_public<const N: usize, const M: usize>() {
    let vals: [u8; N] = kani::any();
    let mut a = Array1::from(vals.to_vec());
    let req: [usize; M] = kani::any();
    let mut k = 0;
    while k < M {
        kani::assume(req[k] < N);
        k += 1;
    }
    let reqa = Array1::from(req.to_vec());
    arm_bulk_contract();
    let map = a.get_many_from_sorted_mut(&reqa);
    // one entry per distinct requested index
    let mut distinct = 0usize;
    let mut i = 0;
    while i < N {
        let mut asked = false;
        let mut k = 0;
        while k < M {
            if req[k] == i {
                asked = true;
            }
            k += 1;
        }
        match map.get(&i) {
            Some(v) => {
                assert!(asked, "no entry for an index that was not requested");
                assert!(rank_ok(&vals, N, v, i), "entry i holds the element of rank i");
            }
            None => assert!(!asked, "every requested index has an entry"),
        }
        if asked {
            distinct += 1;
        }
        i += 1;
    }
    assert!(map.len() == distinct, "one entry per distinct index");
    // iteration in strictly increasing index order
    let mut prev: Option<usize> = None;
    for (k, _v) in map.iter() {
        if let Some(p) = prev {
            assert!(p < *k, "iteration in increasing index order");
        }
        prev = Some(*k);
    }
    let w: u8 = kani::any();
    let mut c1 = 0usize;
    for e in a.iter() {
        if *e == w {
            c1 += 1;
        }
    }
    assert!(count_eq(&vals, N, &w) == c1, "lane multiset preserved");
    kani::cover!(M == 0 || req[0] == N - 1, "W: reachable with the largest index first");
    kani::cover!(M < 3 || (req[0] == 2 && req[1] == 0 && req[2] == 2), "W: unordered request list with a repeat");
}

//@ prop=C02,C18 tier=quick mem=6 timeout=2700 flags=modelmap,stub uses=cut inst="get_many_from_sorted_mut on Array1<u8> len 3, request list Array1<usize> len 3; ModelMap; std unstable sort stubbed by insertion sort" bounds="request list of 3 indexes over {0,1,2} in any order with repeats; unwind 6"
#[kani::proof]
#[kani::unwind(6)]
#[kani::stub(core::slice::sort::unstable::sort, model_sort)]
fn c02_bulk_public_n3_m3() {
    bulk_public::<3, 3>();
}

//@ prop=C02,C18:thorough tier=quick mem=6 timeout=2700 flags=modelmap,stub uses=cut inst="get_many_from_sorted_mut on Array1<u8> len 4, request list len 2; ModelMap" bounds="request list of 2 indexes over {0..3}; unwind 6"
#[kani::proof]
#[kani::unwind(6)]
#[kani::stub(core::slice::sort::unstable::sort, model_sort)]
fn c02_bulk_public_n4_m2() {
    bulk_public::<4, 2>();
}

//@ prop=C02,C18:thorough tier=quick mem=4 timeout=1800 flags=modelmap,stub uses=cut inst="get_many_from_sorted_mut on Array1<u8> len 3, empty request list; ModelMap" bounds="empty request list; unwind 6"
#[kani::proof]
#[kani::unwind(6)]
#[kani::stub(core::slice::sort::unstable::sort, model_sort)]
fn c02_bulk_public_n3_m0() {
    bulk_public::<3, 0>();
}

//@ prop=C02,C18:thorough tier=quick mem=4 timeout=1800 flags=modelmap,stub uses=cut inst="get_many_from_sorted_mut on Array1<u8> len 3, request list len 1; ModelMap" bounds="one requested index over {0,1,2}; unwind 6"
#[kani::proof]
#[kani::unwind(6)]
#[kani::stub(core::slice::sort::unstable::sort, model_sort)]
fn c02_bulk_public_n3_m1() {
    bulk_public::<3, 1>();
}
// A request list of SYMBOLIC length (0..=3) was tried and ran out of memory (> 32 GB) in CBMC's
// propositional reduction: symbolic-length heap vectors go through the array theory. The four
// concrete lengths above cover the same lists.

/// Direct full-recursion cross-checks of the two contracts (no cut), concrete length 2: the real
/// recursion, every pivot sequence.
// (not registered: did not finish (solver ran out of memory / time) even at n = 2; the contracts were cross-checked by a direct full-recursion run at n = 3 only in the design phase (DESIGN 2, 1155 s with a recursion unwindset)) prop=C02,C16:thorough tier=thorough mem=8 timeout=3600 uses=pivot inst="get_from_sorted_mut on Array1<u8> len 2, FULL recursion (no cut)" bounds="len 2, every i, every pivot sequence; unwind 5"
#[allow(dead_code)]
// #[kani::unwind(5)]
fn c02_select_full_n2() {
    let vals: [u8; 2] = kani::any();
    let i: usize = kani::any();
    kani::assume(i < 2);
    let mut a = Array1::from(vals.to_vec());
    let r = a.get_from_sorted_mut(i);
    assert!(rank_ok(&vals, 2, &r, i), "result is the element a full sort places at i");
    let w: u8 = kani::any();
    let mut c1 = 0usize;
    for e in a.iter() {
        if *e == w {
            c1 += 1;
        }
    }
    assert!(count_eq(&vals, 2, &w) == c1, "multiset preserved");
    kani::cover!(vals[0] > vals[1] && i == 1, "W: unsorted input, maximum requested");
}

// (not registered: did not finish (solver ran out of memory / time) even at n = 2; the contracts were cross-checked by a direct full-recursion run at n = 3 only in the design phase (DESIGN 2, 1155 s with a recursion unwindset)) prop=C02 tier=thorough mem=8 timeout=3600 uses=pivot inst="_get_many_from_sorted_mut_unchecked on ArrayViewMut1<u8> len 2, FULL recursion (no cut)" bounds="len 2, every index subset, every pivot sequence; unwind 5"
#[allow(dead_code)]
// #[kani::unwind(5)]
fn c02_bulk_full_n2() {
    bulk_step::<2>(false);
}
