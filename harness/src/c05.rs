//! C05 — min / max / argmin / argmax designate a true extremum or the right error.
use crate::common::*;
use ndarray::prelude::*;
use ndarray_stats::errors::MinMaxError;
use ndarray_stats::QuantileExt;

/// 2-D, R x C, layouts from the menu, element type f32 with every bit pattern.
fn extrema_f32_2d<const R: usize, const C: usize, const RC: usize>(layout: u8) {
    let vals: [f32; RC] = kani::any();
    let p = parent2(&vals, R, C, layout, 0.0f32);
    let v = view2(&p, layout);
    let mut any_nan = false;
    let mut k = 0;
    while k < RC {
        if vals[k] != vals[k] {
            any_nan = true;
        }
        k += 1;
    }
    let amin = v.argmin();
    let amax = v.argmax();
    let mn = v.min();
    let mx = v.max();
    if any_nan {
        assert!(amin == Err(MinMaxError::UndefinedOrder), "NaN anywhere => UndefinedOrder (argmin)");
        assert!(amax == Err(MinMaxError::UndefinedOrder), "NaN anywhere => UndefinedOrder (argmax)");
        assert!(mn == Err(MinMaxError::UndefinedOrder) && mx == Err(MinMaxError::UndefinedOrder));
    } else {
        let (i, j) = amin.clone().unwrap();
        let (a, b) = amax.clone().unwrap();
        assert!(i < R && j < C && a < R && b < C);
        let lo = vals[i * C + j];
        let hi = vals[a * C + b];
        let mut k = 0;
        while k < RC {
            assert!(lo <= vals[k], "argmin designates an element <= every element");
            assert!(hi >= vals[k], "argmax designates an element >= every element");
            k += 1;
        }
        assert!(*mn.unwrap() == lo, "min() equals the element found by argmin()");
        assert!(*mx.unwrap() == hi, "max() equals the element found by argmax()");
    }
    kani::cover!(any_nan && vals[RC - 1] != vals[RC - 1] && vals[0] == vals[0], "W: NaN only at the last position");
    kani::cover!(!any_nan && amin == Ok((R - 1, 0)), "W: minimum in the last row");
    kani::cover!(!any_nan && vals[0] == 0.0 && vals[1] == 0.0 && vals[0].to_bits() != vals[1].to_bits(), "W: signed zeros");
}

//@ prop=C05,C20:thorough tier=quick mem=4 timeout=1800 inst="ArrayView2<f32> 2x2, F-order" bounds="all bit patterns (NaN, +-0, +-inf); unwind 8"
#[kani::proof]
#[kani::unwind(8)]
fn c05_extrema_f32_2x2_f() {
    extrema_f32_2d::<2, 2, 4>(1);
}
//@ prop=C05,C20 tier=quick mem=4 timeout=1800 inst="ArrayView2<f32> 2x2, stepped view of a 5x5 parent" bounds="all bit patterns; unwind 8"
#[kani::proof]
#[kani::unwind(8)]
fn c05_extrema_f32_2x2_stepped() {
    extrema_f32_2d::<2, 2, 4>(2);
}
//@ prop=C05,C20 tier=thorough mem=4 timeout=3600 inst="ArrayView2<f32> 2x3, both axes reversed" bounds="all bit patterns; unwind 10"
#[kani::proof]
#[kani::unwind(10)]
fn c05_extrema_f32_2x3_rev() {
    extrema_f32_2d::<2, 3, 6>(3);
}
//@ prop=C05,C20 tier=thorough mem=4 timeout=3600 inst="ArrayView2<f32> 3x2, F-order rows reversed" bounds="all bit patterns; unwind 10"
#[kani::proof]
#[kani::unwind(10)]
fn c05_extrema_f32_3x2_frev() {
    extrema_f32_2d::<3, 2, 6>(4);
}
//@ prop=C05,C20 tier=thorough mem=4 timeout=3600 inst="ArrayView2<f32> 2x2, C-order" bounds="all bit patterns; unwind 8"
#[kani::proof]
#[kani::unwind(8)]
fn c05_extrema_f32_2x2_c() {
    extrema_f32_2d::<2, 2, 4>(0);
}

/// Integer data (ties), 2-D.
fn extrema_i8_2d<const R: usize, const C: usize, const RC: usize>(layout: u8) {
    let vals: [i8; RC] = kani::any();
    let p = parent2(&vals, R, C, layout, 0i8);
    let v = view2(&p, layout);
    let (i, j) = v.argmin().unwrap();
    let (a, b) = v.argmax().unwrap();
    let lo = vals[i * C + j];
    let hi = vals[a * C + b];
    let mut k = 0;
    while k < RC {
        assert!(lo <= vals[k] && hi >= vals[k], "true extrema");
        k += 1;
    }
    assert!(*v.min().unwrap() == lo && *v.max().unwrap() == hi);
    kani::cover!((i, j) == (1, 1), "W: minimum at (1,1)");
    kani::cover!(lo == hi, "W: all equal");
}

//@ prop=C05,C20:thorough tier=quick mem=4 timeout=1800 inst="ArrayView2<i8> 2x3, stepped view of a 5x7 parent" bounds="all contents; unwind 10"
#[kani::proof]
#[kani::unwind(10)]
fn c05_extrema_i8_2x3_stepped() {
    extrema_i8_2d::<2, 3, 6>(2);
}
//@ prop=C05,C20:thorough tier=quick mem=4 timeout=1800 inst="ArrayView2<i8> 2x3, F-order rows reversed" bounds="all contents; unwind 10"
#[kani::proof]
#[kani::unwind(10)]
fn c05_extrema_i8_2x3_frev() {
    extrema_i8_2d::<2, 3, 6>(4);
}
//@ prop=C05,C20 tier=thorough mem=4 timeout=3600 inst="ArrayView2<i8> 3x2, both axes reversed" bounds="all contents; unwind 10"
#[kani::proof]
#[kani::unwind(10)]
fn c05_extrema_i8_3x2_rev() {
    extrema_i8_2d::<3, 2, 6>(3);
}

/// 1-D views (lengths 1..=4 concrete per harness), f32.
fn extrema_f32_1d<const B: usize, const LEN: usize>(layout: u8) {
    let mut buf: [f32; B] = kani::any();
    let orig = buf;
    let v = carve1(&mut buf, layout, LEN);
    let mut any_nan = false;
    let mut t = 0;
    while t < LEN {
        let x = orig[pos1(layout, LEN, t)];
        if x != x {
            any_nan = true;
        }
        t += 1;
    }
    let amin = v.argmin();
    let amax = v.argmax();
    if any_nan {
        assert!(amin == Err(MinMaxError::UndefinedOrder) && amax == Err(MinMaxError::UndefinedOrder));
        assert!(v.min() == Err(MinMaxError::UndefinedOrder) && v.max() == Err(MinMaxError::UndefinedOrder));
    } else {
        let i = amin.clone().unwrap();
        let a = amax.clone().unwrap();
        let lo = orig[pos1(layout, LEN, i)];
        let hi = orig[pos1(layout, LEN, a)];
        let mut t = 0;
        while t < LEN {
            let x = orig[pos1(layout, LEN, t)];
            assert!(lo <= x && hi >= x, "true extrema");
            t += 1;
        }
        assert!(*v.min().unwrap() == lo && *v.max().unwrap() == hi);
    }
    kani::cover!(any_nan && orig[pos1(layout, LEN, 0)] != orig[pos1(layout, LEN, 0)], "W: NaN at the first position");
    kani::cover!(!any_nan && amin == Ok(LEN - 1), "W: minimum at the last position");
}

//@ prop=C05 tier=quick mem=3 timeout=1200 inst="ArrayViewMut1<f32>, reversed stride 2, len 4" bounds="all bit patterns; unwind 10"
#[kani::proof]
#[kani::unwind(10)]
fn c05_extrema_f32_1d_revstep2_l4() {
    extrema_f32_1d::<9, 4>(4);
}

//@ prop=C05 tier=quick mem=2 timeout=900 inst="ArrayViewMut1<f32>, unit stride, len 1" bounds="all bit patterns; unwind 5"
#[kani::proof]
#[kani::unwind(5)]
fn c05_extrema_f32_1d_unit_l1() {
    extrema_f32_1d::<1, 1>(0);
}

/// Empty arrays (zero-length axes), 0-D, 3-D with permuted axes, IxDyn.
//@ prop=C05,C17:thorough tier=quick mem=6 timeout=2400 inst="i8: Array2 [2,0] and [0,3], Array1 [0], Array0, Array3 [2,1,2] with permuted axes, ArrayD" bounds="all contents; unwind 8"
#[kani::proof]
#[kani::unwind(8)]
fn c05_extrema_shapes_i8() {
    // zero-length axes
    let e20: Array2<i8> = Array2::from_shape_vec((2, 0), Vec::with_capacity(1)).unwrap();
    assert!(e20.argmin() == Err(MinMaxError::EmptyInput) && e20.argmax() == Err(MinMaxError::EmptyInput));
    assert!(e20.min() == Err(MinMaxError::EmptyInput) && e20.max() == Err(MinMaxError::EmptyInput));
    let e03: Array2<i8> = Array2::from_shape_vec((0, 3), Vec::with_capacity(1)).unwrap();
    assert!(e03.argmin() == Err(MinMaxError::EmptyInput) && e03.max() == Err(MinMaxError::EmptyInput));
    let e0: Array1<i8> = Array1::from(Vec::with_capacity(1));
    assert!(e0.argmax() == Err(MinMaxError::EmptyInput) && e0.min() == Err(MinMaxError::EmptyInput));
    // 0-D
    let x: i8 = kani::any();
    let a0 = arr0(x);
    assert!(a0.argmin() == Ok(()) && a0.argmax() == Ok(()));
    assert!(*a0.min().unwrap() == x && *a0.max().unwrap() == x);
    // 3-D [2,1,2] seen through permuted axes (-> logical shape [2,2,1])
    let vals: [i8; 4] = kani::any();
    let a3 = Array3::from_shape_vec((2, 1, 2), vals.to_vec()).unwrap();
    let perm = a3.view().permuted_axes([2, 0, 1]); // logical (k, i, j) = a3[i, j, k]
    let (k, i, j) = perm.argmin().unwrap();
    let lo = vals[i * 2 + j * 2 + k];
    let (k2, i2, j2) = perm.argmax().unwrap();
    let hi = vals[i2 * 2 + j2 * 2 + k2];
    let mut t = 0;
    while t < 4 {
        assert!(lo <= vals[t] && hi >= vals[t], "true extrema through permuted axes");
        t += 1;
    }
    assert!(*perm.min().unwrap() == lo && *perm.max().unwrap() == hi);
    // dynamic dimensionality
    let ad = a3.clone().into_dyn();
    let ix = ad.argmin().unwrap();
    assert!(ix.ndim() == 3);
    assert!(vals[ix[0] * 2 + ix[1] * 2 + ix[2]] == lo, "IxDyn argmin designates a minimum");
    kani::cover!((k, i, j) == (1, 1, 0), "W: minimum at logical (1,1,0)");
}

/// Float f32 zero-size and 4-D.
//@ prop=C05 tier=thorough mem=6 timeout=3600 inst="f32: Array4 [1,2,1,2] reversed on axis 1, empty Array3 [1,0,2]" bounds="all bit patterns; unwind 8"
#[kani::proof]
#[kani::unwind(8)]
fn c05_extrema_4d_f32() {
    let vals: [f32; 4] = kani::any();
    let a4 = Array4::from_shape_vec((1, 2, 1, 2), vals.to_vec()).unwrap();
    let v = a4.slice(s![.., ..;-1, .., ..]);
    let mut any_nan = false;
    let mut t = 0;
    while t < 4 {
        if vals[t] != vals[t] {
            any_nan = true;
        }
        t += 1;
    }
    match v.argmin() {
        Err(e) => assert!(any_nan && e == MinMaxError::UndefinedOrder),
        Ok((a, b, c, d)) => {
            assert!(!any_nan);
            let lo = vals[(1 - b) * 2 + d];
            let mut t = 0;
            while t < 4 {
                assert!(lo <= vals[t]);
                t += 1;
            }
            assert!(*v.min().unwrap() == lo);
        }
    }
    let e: Array3<f32> = Array3::from_shape_vec((1, 0, 2), Vec::with_capacity(1)).unwrap();
    assert!(e.argmin() == Err(MinMaxError::EmptyInput) && e.max() == Err(MinMaxError::EmptyInput));
    kani::cover!(!any_nan && v.argmin() == Ok((0, 1, 0, 1)), "W: minimum at (0,1,0,1)");
}
