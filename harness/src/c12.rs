//! C12 — strategy-built bins start at the minimum and cover every observation.
use crate::c02::{arm_bulk_contract, model_sort};
use crate::common::*;
use ndarray::prelude::*;
use ndarray_stats::histogram::strategies::{Auto, BinsBuildingStrategy, FreedmanDiaconis, Rice, Sqrt, Sturges};
use ndarray_stats::histogram::{Bins, Edges, Grid, GridBuilder, Histogram};
use ndarray_stats::verif_hooks as vh;
use ndarray_stats::HistogramExt;
use noisy_float::types::{n64, N64};

/// EquiSpaced::{new, build, n_bins} for ALL (w, min, max) of an integer type that give at most
/// MAXB bins (`min + MAXB*w > max`), or are rejected.
macro_rules! equispaced_int {
    ($name:ident, $t:ty, $wide:ty, $maxb:expr) => {
        fn $name(w: $t, mn: $t, mx: $t) {
            let (wl, mnl, mxl) = (w as $wide, mn as $wide, mx as $wide);
            kani::assume(w <= 0 || mn >= mx || mnl + ($maxb as $wide) * wl > mxl);
            match vh::verif_equispaced(w, mn, mx) {
                Err(e) => {
                    assert!(w <= 0 || mn >= mx, "rejected only if w <= 0 or min >= max");
                    assert!(e.is_strategy());
                }
                Ok((bins, nb)) => {
                    assert!(w > 0 && mn < mx, "accepted only if w > 0 and min < max");
                    assert!(nb >= 1 && nb <= $maxb && bins.len() == nb, "advertised number of bins == bins built");
                    let mut k = 0;
                    while k < $maxb {
                        if k < nb {
                            let r = bins.index(k);
                            assert!(r.start as $wide == mnl + (k as $wide) * wl && r.end as $wide == mnl + (k as $wide + 1) * wl, "bin k is [min + k w, min + (k+1) w)");
                        }
                        k += 1;
                    }
                    assert!(bins.index_of(&mn) == Some(0), "bins start exactly at the minimum");
                    assert!(bins.index_of(&mx) == Some(nb - 1), "the maximum lies in the last bin");
                    let last = bins.index(nb - 1);
                    assert!((last.end as $wide) > mxl && (last.end as $wide) <= mxl + wl, "ends strictly above the maximum by at most one width");
                    kani::cover!(nb == $maxb, "W: maximal bin count reachable");
                    kani::cover!(nb == 1, "W: one bin");
                }
            }
        }
    };
}
equispaced_int!(equispaced_i16, i16, i32, 4);
equispaced_int!(equispaced_u8, u8, i32, 4);
equispaced_int!(equispaced_i32, i32, i64, 6);

//@ prop=C12 tier=quick mem=3 timeout=1800 flags=stub inst="EquiSpaced<i16>::{new,build,n_bins}; std unstable sort stubbed (symbolic-length edge vector)" bounds="ALL (w,min,max) with w in -8..=55, min/max in i8 range, at most 4 bins; unwind 7"
#[kani::proof]
#[kani::unwind(7)]
#[kani::stub(core::slice::sort::unstable::sort, model_sort)]
fn c12_equispaced_i16_all() {
    let wb: u8 = kani::any();
    let mnb: i8 = kani::any();
    let mxb: i8 = kani::any();
    equispaced_i16((wb & 63) as i16 - 8, mnb as i16, mxb as i16);
}

//@ prop=C12 tier=quick mem=3 timeout=1800 flags=stub inst="EquiSpaced<u8>::{new,build,n_bins}" bounds="ALL (w,min,max) with max + w <= 255, at most 4 bins; unwind 7"
#[kani::proof]
#[kani::unwind(7)]
#[kani::stub(core::slice::sort::unstable::sort, model_sort)]
fn c12_equispaced_u8_all() {
    let w: u8 = kani::any();
    let mn: u8 = kani::any();
    let mx: u8 = kani::any();
    // the property keeps integer data far enough from the type's limits that max + width is representable
    kani::assume(mx as u32 + w as u32 <= 255);
    equispaced_u8(w, mn, mx);
}

//@ prop=C12 tier=thorough mem=6 timeout=5400 flags=stub inst="EquiSpaced<i32>::{new,build,n_bins}" bounds="ALL (w,min,max) with |min|,|max| < 2^20, w < 2^20, at most 6 bins; unwind 9"
#[kani::proof]
#[kani::unwind(9)]
#[kani::stub(core::slice::sort::unstable::sort, model_sort)]
fn c12_equispaced_i32_all() {
    let w: i32 = kani::any();
    let mn: i32 = kani::any();
    let mx: i32 = kani::any();
    kani::assume(w > -1048576 && w < 1048576 && mn > -1048576 && mn < 1048576 && mx > -1048576 && mx < 1048576);
    equispaced_i32(w, mn, mx);
}

/// N64: the arithmetic core. n_bins() alone (the loop `build` relies on), at most 3 iterations,
/// against the very expressions `build` evaluates: min + (k-1) w <= max < min + k w.
//@ prop=C12 tier=quick mem=4 timeout=3000 inst="EquiSpaced<N64>::{new,n_bins}" bounds="ALL (w,min,max) with magnitudes in [2^-10, 2^10], at most 3 bins; unwind 6"
#[kani::proof]
#[kani::unwind(6)]
fn c12_equispaced_n64_core() {
    let w: f64 = kani::any();
    let mn: f64 = kani::any();
    let mx: f64 = kani::any();
    kani::assume(w > 0.0009765625 && w < 1024.0 && mn > -1024.0 && mn < mx && mx < 1024.0);
    kani::assume(mn + 3.0 * w > mx);
    let nb = vh::verif_equispaced_n_bins(n64(w), n64(mn), n64(mx)).unwrap();
    assert!(nb >= 1 && nb <= 3);
    let kf = nb as f64;
    assert!(mn + kf * w > mx, "the last edge build() computes is strictly above the maximum");
    assert!(mn + (kf - 1.0) * w <= mx, "the last bin's left edge is not above the maximum (at most one width beyond)");
    kani::cover!(nb == 3, "W: three bins");
    kani::cover!(nb == 1, "W: one bin");
}

/// One strategy on integer data of concrete length N: error cases, min/max/width observed through
/// the public API, equal widths, every observation covered.
macro_rules! strategy_check {
    ($name:ident, $strat:ident, $t:ty, $wide:ty, $n:expr, $maxb:expr) => {
        fn $name() {
            let data: [$t; $n] = kani::any();
            let a = Array1::from(data.to_vec());
            arm_bulk_contract();
            let mut mn = data[0];
            let mut mx = data[0];
            let mut k = 1;
            while k < $n {
                if data[k] < mn {
                    mn = data[k];
                }
                if data[k] > mx {
                    mx = data[k];
                }
                k += 1;
            }
            // keep away from the type's limits, as the property does
            kani::assume((mx as $wide) - (mn as $wide) <= 12 && (mx as $wide) <= 100 && (mn as $wide) >= -100);
            let mut saw_multi = false;
            let mut saw_const_rejected = false;
            match $strat::<$t>::from_array(&a) {
                Err(e) => {
                    // constant data must be rejected with Strategy; non-constant data may be rejected
                    // too (integer width rounding to zero, zero IQR) but never with EmptyInput
                    assert!(e.is_strategy(), "non-empty data is never EmptyInput");
                    saw_const_rejected = mn == mx;
                }
                Ok(s) => {
                    assert!(mn < mx, "constant data is rejected");
                    let w = s.bin_width();
                    assert!(w > 0);
                    let nb = s.n_bins();
                    let bins = s.build();
                    assert!(bins.len() == nb, "advertised number of bins == bins built");
                    assert!(nb >= 1 && nb <= $maxb);
                    let mut k = 0;
                    while k < $maxb {
                        if k < nb {
                            let r = bins.index(k);
                            assert!(r.start as $wide == mn as $wide + (k as $wide) * (w as $wide), "bins start at the data minimum and are equally wide");
                            assert!(r.end as $wide == mn as $wide + (k as $wide + 1) * (w as $wide));
                        }
                        k += 1;
                    }
                    assert!(bins.index_of(&mx) == Some(nb - 1), "the data maximum lies in the last bin");
                    let mut k = 0;
                    while k < $n {
                        assert!(bins.index_of(&data[k]).is_some(), "every observation falls into a bin");
                        k += 1;
                    }
                    saw_multi = nb >= 2;
                }
            }
            kani::cover!($n < 2 || saw_multi, "W: at least two bins built");
            kani::cover!(saw_const_rejected, "W: constant data rejected");
        }
    };
}

strategy_check!(sqrt_i16_n3, Sqrt, i16, i32, 3, 14);
strategy_check!(sqrt_i16_n1, Sqrt, i16, i32, 1, 14);
strategy_check!(rice_i16_n3, Rice, i16, i32, 3, 14);
strategy_check!(sturges_i16_n3, Sturges, i16, i32, 3, 14);
strategy_check!(fd_i16_n3, FreedmanDiaconis, i16, i32, 3, 14);
strategy_check!(auto_i16_n3, Auto, i16, i32, 3, 14);
strategy_check!(sqrt_i8_n2, Sqrt, i8, i32, 2, 14);

//@ prop=C12,C17:thorough tier=quick mem=6 timeout=3000 flags=stub inst="Sqrt<i16>::from_array / build / n_bins / bin_width on Array1<i16> len 3" bounds="all data with spread <= 12 and |v| <= 100; unwind 16"
#[kani::proof]
#[kani::unwind(16)]
#[kani::stub(core::slice::sort::unstable::sort, model_sort)]
fn c12_sqrt_i16_n3() {
    sqrt_i16_n3();
}
//@ prop=C12,C17:thorough tier=quick mem=4 timeout=1800 flags=stub inst="Sqrt<i16> on a single observation" bounds="len 1 (always constant => Strategy); unwind 16"
#[kani::proof]
#[kani::unwind(16)]
#[kani::stub(core::slice::sort::unstable::sort, model_sort)]
fn c12_sqrt_i16_n1() {
    sqrt_i16_n1();
}
//@ prop=C12,C17:thorough tier=quick mem=6 timeout=3000 flags=stub inst="Rice<i16> on Array1<i16> len 3 (powf: CBMC's over-approximating model, so a superset of the real bin counts)" bounds="all data with spread <= 12; unwind 16"
#[kani::proof]
#[kani::unwind(16)]
#[kani::stub(core::slice::sort::unstable::sort, model_sort)]
fn c12_rice_i16_n3() {
    rice_i16_n3();
}
//@ prop=C12,C17:thorough tier=quick mem=6 timeout=3000 flags=stub inst="Sturges<i16> on Array1<i16> len 3 (log2: CBMC's over-approximating model)" bounds="all data with spread <= 12; unwind 16"
#[kani::proof]
#[kani::unwind(16)]
#[kani::stub(core::slice::sort::unstable::sort, model_sort)]
fn c12_sturges_i16_n3() {
    sturges_i16_n3();
}
//@ prop=C12,C17 tier=thorough mem=18 timeout=5400 flags=stub,modelmap uses=cut inst="FreedmanDiaconis<i16> on Array1<i16> len 3; quantile selection cut to its contract, ModelMap" bounds="all data with spread <= 12; unwind 16"
#[kani::proof]
#[kani::unwind(16)]
#[kani::stub(core::slice::sort::unstable::sort, model_sort)]
fn c12_fd_i16_n3() {
    fd_i16_n3();
}
// (not registered: not verified to finish within the session's budget on this machine) prop=C12,C17 tier=thorough mem=10 timeout=5400 flags=stub,modelmap uses=cut inst="Auto<i16> on Array1<i16> len 3" bounds="all data with spread <= 12; unwind 16"
#[allow(dead_code)]
// #[kani::unwind(16)]
// #[kani::stub(core::slice::sort::unstable::sort, model_sort)]
fn c12_auto_i16_n3() {
    auto_i16_n3();
}
//@ prop=C12 tier=thorough mem=6 timeout=3000 flags=stub inst="Sqrt<i8> on Array1<i8> len 2" bounds="all data with spread <= 12; unwind 16"
#[kani::proof]
#[kani::unwind(16)]
#[kani::stub(core::slice::sort::unstable::sort, model_sort)]
fn c12_sqrt_i8_n2() {
    sqrt_i8_n2();
}

/// Empty data: every strategy reports EmptyInput.
//@ prop=C12,C17 tier=quick mem=4 timeout=1800 flags=stub,modelmap inst="Sqrt / Rice / Sturges / FreedmanDiaconis / Auto ::<i16>::from_array on an empty Array1" bounds="empty input; unwind 8"
#[kani::proof]
#[kani::unwind(8)]
#[kani::stub(core::slice::sort::unstable::sort, model_sort)]
fn c12_strategies_empty() {
    let a: Array1<i16> = Array1::from(Vec::with_capacity(1));
    assert!(Sqrt::<i16>::from_array(&a).unwrap_err().is_empty_input());
    assert!(Rice::<i16>::from_array(&a).unwrap_err().is_empty_input());
    assert!(Sturges::<i16>::from_array(&a).unwrap_err().is_empty_input());
    assert!(FreedmanDiaconis::<i16>::from_array(&a).unwrap_err().is_empty_input());
    assert!(Auto::<i16>::from_array(&a).unwrap_err().is_empty_input());
    kani::cover!(true, "W: reached");
}

/// End to end through GridBuilder: a histogram of the data over the grid built from it counts
/// all n observations.
// (not registered: not verified to finish within the session's budget on this machine) prop=C12,C11 tier=thorough mem=14 timeout=7200 flags=stub inst="GridBuilder<Sqrt<i16>>::from_array(&[3,1] matrix).build(); histogram of the same matrix" bounds="3 observations, spread <= 6; unwind 12"
#[allow(dead_code)]
// #[kani::unwind(12)]
// #[kani::stub(core::slice::sort::unstable::sort, model_sort)]
fn c12_gridbuilder_sqrt_counts_all() {
    let data: [i16; 3] = kani::any();
    let mut mn = data[0];
    let mut mx = data[0];
    let mut k = 1;
    while k < 3 {
        if data[k] < mn {
            mn = data[k];
        }
        if data[k] > mx {
            mx = data[k];
        }
        k += 1;
    }
    kani::assume(mx as i32 - mn as i32 <= 6 && mx <= 100 && mn >= -100);
    let m = Array2::from_shape_vec((3, 1), data.to_vec()).unwrap();
    match GridBuilder::<Sqrt<i16>>::from_array(&m) {
        Err(_) => assert!(mn == mx || (mx - mn) / 2 == 0),
        Ok(gb) => {
            let grid = gb.build();
            let h = m.histogram(grid);
            let mut total = 0usize;
            for c in h.counts().iter() {
                total += *c;
            }
            assert!(total == 3, "a histogram of the data over its own grid counts all n observations");
            kani::cover!(true, "W: grid built");
        }
    }
}
