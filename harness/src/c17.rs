//! C17 — every fallible routine reports exactly the documented error.
use crate::c02::arm_bulk_contract;
use crate::common::*;
use crate::q::Q;
use ndarray::prelude::*;
use ndarray_stats::errors::{EmptyInput, MultiInputError, QuantileError, ShapeMismatch};
use ndarray_stats::interpolate::{Linear, Lower, Nearest};
use ndarray_stats::{CorrelationExt, DeviationExt, EntropyExt, Quantile1dExt, QuantileExt, SummaryStatisticsExt};
use noisy_float::types::{n64, N64};

/// The documented verdict of a two-argument routine, from the shapes alone.
fn verdict<T>(r: &Result<T, MultiInputError>, a_len: usize, sa: &[usize], sb: &[usize]) {
    if a_len == 0 {
        assert!(matches!(r, Err(MultiInputError::EmptyInput)), "empty first input => EmptyInput (checked before the shapes)");
    } else if sa != sb {
        match r {
            Err(MultiInputError::ShapeMismatch(sm)) => {
                assert!(sm.first_shape == sa && sm.second_shape == sb, "ShapeMismatch carries both shapes as given");
            }
            _ => assert!(false, "non-empty input, different shape => ShapeMismatch"),
        }
    } else {
        assert!(r.is_ok(), "same shape, non-empty => Ok");
    }
}

/// All DeviationExt routines on one (self-shape, argument-shape) pair with symbolic contents.
fn deviation_pair<D: Dimension>(a: &Array<i32, D>, b: &Array<i32, D>) {
    let (n, sa, sb) = (a.len(), a.shape().to_vec(), b.shape().to_vec());
    verdict(&a.count_eq(b), n, &sa, &sb);
    verdict(&a.count_neq(b), n, &sa, &sb);
    verdict(&a.sq_l2_dist(b), n, &sa, &sb);
    verdict(&a.l2_dist(b), n, &sa, &sb);
    verdict(&a.l1_dist(b), n, &sa, &sb);
    verdict(&a.linf_dist(b), n, &sa, &sb);
    verdict(&a.mean_abs_err(b), n, &sa, &sb);
    verdict(&a.mean_sq_err(b), n, &sa, &sb);
    verdict(&a.root_mean_sq_err(b), n, &sa, &sb);
}

// The verdict depends on the shapes only: contents are concrete (cheap constant propagation) except
// for one symbolic cell, so that the Ok paths are still executed on data the solver chooses.
fn mk2(r: usize, c: usize) -> Array2<i32> {
    let x = kani::any::<i8>() as i32;
    Array2::from_shape_fn((r, c), |(i, j)| if i + j == 0 { x } else { (3 * i + j) as i32 - 2 })
}
fn mk1(n: usize) -> Array1<i32> {
    let x = kani::any::<i8>() as i32;
    Array1::from_shape_fn(n, |i| if i == 0 { x } else { 5 - i as i32 })
}

//@ prop=C17 tier=quick mem=8 timeout=3000 inst="DeviationExt (9 routines) on Array2<i32>: self x argument over shapes [2,0], [1,2], [2,1], [2,2]" bounds="6 shape pairs incl. equal element count with different shape and empty inputs; one symbolic cell per operand; unwind 8"
#[kani::proof]
#[kani::unwind(8)]
fn c17_deviation_2d_table() {
    deviation_pair(&mk2(2, 0), &mk2(2, 0));
    deviation_pair(&mk2(2, 0), &mk2(2, 2));
    deviation_pair(&mk2(1, 2), &mk2(2, 1));
    deviation_pair(&mk2(1, 2), &mk2(1, 2));
    deviation_pair(&mk2(2, 2), &mk2(2, 1));
    deviation_pair(&mk2(0, 2), &mk2(2, 0));
    kani::cover!(true, "W: reached");
}

//@ prop=C17 tier=quick mem=4 timeout=1800 inst="DeviationExt on Array1<i32>: shapes [0], [2], [3]" bounds="6 shape pairs; unwind 8"
#[kani::proof]
#[kani::unwind(8)]
fn c17_deviation_1d_table() {
    deviation_pair(&mk1(0), &mk1(0));
    deviation_pair(&mk1(0), &mk1(2));
    deviation_pair(&mk1(2), &mk1(0));
    deviation_pair(&mk1(2), &mk1(3));
    deviation_pair(&mk1(3), &mk1(2));
    deviation_pair(&mk1(3), &mk1(3));
    kani::cover!(true, "W: reached");
}

/// SummaryStatisticsExt: one-argument routines, two-argument routines, per-axis routines (f32,
/// benign payloads so that no arithmetic overflows; the verdict depends on shapes only).
fn f2(r: usize, c: usize) -> Array2<f32> {
    let x = (kani::any::<u8>() & 7) as f32 + 1.0;
    Array2::from_shape_fn((r, c), |(i, j)| if i + j == 0 { x } else { (2 * i + j) as f32 + 1.0 })
}
fn f1(n: usize) -> Array1<f32> {
    Array1::from_shape_fn(n, |i| i as f32 + 1.0)
}

fn summary_pair(a: &Array2<f32>, w: &Array2<f32>) {
    let (n, sa, sb) = (a.len(), a.shape().to_vec(), w.shape().to_vec());
    verdict(&a.weighted_mean(w), n, &sa, &sb);
    verdict(&a.weighted_var(w, 0.0), n, &sa, &sb);
    verdict(&a.weighted_std(w, 1.0), n, &sa, &sb);
    // the sum-type routine accepts an empty input and returns zero
    let ws = a.weighted_sum(w);
    if sa == sb {
        assert!(ws.is_ok(), "same shape => Ok");
        if n == 0 {
            assert!(ws == Ok(0.0), "weighted_sum of an empty array is zero");
        }
    } else if n != 0 {
        verdict(&ws, n, &sa, &sb);
    }
}

fn summary_axis(a: &Array2<f32>, axis: usize, w: &Array1<f32>) {
    let n = a.len();
    let axis_len = a.shape()[axis];
    let (sa, sb) = (a.shape().to_vec(), w.shape().to_vec());
    let check = |is_ok: bool, err: Option<&MultiInputError>, sum_type: bool| {
        if n == 0 && !sum_type {
            assert!(matches!(err, Some(MultiInputError::EmptyInput)), "empty input => EmptyInput");
        } else if axis_len != w.len() {
            match err {
                Some(MultiInputError::ShapeMismatch(sm)) => assert!(sm.first_shape == sa && sm.second_shape == sb, "both shapes as given"),
                _ => assert!(false, "weights.len() != axis length => ShapeMismatch"),
            }
        } else {
            assert!(is_ok, "matching weights => Ok");
        }
    };
    let r = a.weighted_sum_axis(Axis(axis), w);
    check(r.is_ok(), r.as_ref().err(), true);
    if let Ok(v) = &r {
        if n == 0 {
            for x in v.iter() {
                assert!(*x == 0.0, "weighted_sum_axis of an empty array is all zeros");
            }
        }
    }
    let r = a.weighted_mean_axis(Axis(axis), w);
    check(r.is_ok(), r.as_ref().err(), false);
    let r = a.weighted_var_axis(Axis(axis), w, 0.0);
    check(r.is_ok(), r.as_ref().err(), false);
    // (ddof 0: with ddof 1 a lane of total weight 1 divides 0 by 0, which Kani's NaN-production check
    // flags although it is ordinary float behaviour outside the property)
    let r = a.weighted_std_axis(Axis(axis), w, 0.0);
    check(r.is_ok(), r.as_ref().err(), false);
}

//@ prop=C17 tier=quick mem=6 timeout=2400 inst="weighted_mean / weighted_var / weighted_std / weighted_sum on Array2<f32>" bounds="shape pairs over [2,0], [1,2], [2,1], [2,2]; unwind 8"
#[kani::proof]
#[kani::unwind(8)]
fn c17_summary_pair_table() {
    summary_pair(&f2(2, 0), &f2(2, 0));
    summary_pair(&f2(2, 0), &f2(2, 2));
    summary_pair(&f2(1, 2), &f2(2, 1));
    summary_pair(&f2(2, 1), &f2(2, 1));
    kani::cover!(true, "W: reached");
}

//@ prop=C17 tier=quick mem=6 timeout=2400 inst="weighted_sum_axis / weighted_mean_axis / weighted_var_axis / weighted_std_axis on Array2<f32>" bounds="weights of wrong and right length, empty inputs, both axes; unwind 8"
#[kani::proof]
#[kani::unwind(8)]
fn c17_summary_axis_table() {
    summary_axis(&f2(2, 1), 0, &f1(1));
    summary_axis(&f2(2, 1), 1, &f1(1));
    summary_axis(&f2(2, 2), 0, &f1(3));
    summary_axis(&f2(2, 0), 0, &f1(2));
    summary_axis(&f2(2, 0), 1, &f1(0));
    summary_axis(&f2(2, 0), 1, &f1(2));
    kani::cover!(true, "W: reached");
}

//@ prop=C17 tier=quick mem=4 timeout=1800 inst="mean / harmonic_mean / central_moment(s) / kurtosis / skewness / entropy on empty and non-empty Array2<f64>, Array1<f64>" bounds="shapes [0], [2,0], [0,3], [1]; unwind 8"
#[kani::proof]
#[kani::unwind(8)]
fn c17_one_argument_empty() {
    let e1: Array1<f64> = Array1::from(Vec::with_capacity(1));
    let e2: Array2<f64> = Array2::from_shape_vec((2, 0), Vec::with_capacity(1)).unwrap();
    let e3: Array2<f64> = Array2::from_shape_vec((0, 3), Vec::with_capacity(1)).unwrap();
    assert!(SummaryStatisticsExt::mean(&e1) == Err(EmptyInput) && SummaryStatisticsExt::mean(&e2) == Err(EmptyInput) && SummaryStatisticsExt::mean(&e3) == Err(EmptyInput));
    assert!(e1.harmonic_mean() == Err(EmptyInput) && e2.geometric_mean() == Err(EmptyInput));
    assert!(e1.central_moment(0) == Err(EmptyInput) && e2.central_moment(3) == Err(EmptyInput));
    assert!(e3.central_moments(2) == Err(EmptyInput) && e1.kurtosis() == Err(EmptyInput) && e2.skewness() == Err(EmptyInput));
    assert!(e1.entropy() == Err(EmptyInput) && e3.entropy() == Err(EmptyInput));
    let x: f64 = kani::any();
    kani::assume(x > 0.5 && x < 2.0);
    let one = Array1::from(vec![x]);
    assert!(SummaryStatisticsExt::mean(&one) == Ok(x) && one.central_moment(0).is_ok() && one.central_moments(1).is_ok());
    assert!(one.entropy().is_ok());
    kani::cover!(true, "W: reached");
}

/// Kani 0.68 mis-models `ShapeMismatch { .. }.into()` (moving the struct into the niche-encoded enum
/// `MultiInputError` through `From`): in the model the payload's FIRST Vec (which carries the enum's
/// niche) is corrupted, natively it is correct (DESIGN.md, false alarms). For the two entropy routines,
/// which are the only ones built that way, the variant and the second shape are asserted and the
/// first shape is left outside the claim; the value is forgotten so that its drop glue does not touch
/// the corrupted Vec either.
fn verdict_entropy(r: Result<f64, MultiInputError>, a_len: usize, sa: &[usize], sb: &[usize]) {
    if a_len == 0 {
        assert!(matches!(r, Err(MultiInputError::EmptyInput)), "empty first input => EmptyInput");
    } else if sa != sb {
        match &r {
            Err(MultiInputError::ShapeMismatch(sm)) => assert!(sm.second_shape == sb, "ShapeMismatch carries the argument's shape"),
            _ => assert!(false, "non-empty input, different shape => ShapeMismatch"),
        }
    } else {
        assert!(r.is_ok(), "same shape, non-empty => Ok");
    }
    std::mem::forget(r);
}

fn entropy_pair(p: &Array2<f64>, q: &Array2<f64>) {
    let (n, sa, sb) = (p.len(), p.shape().to_vec(), q.shape().to_vec());
    verdict_entropy(p.cross_entropy(q), n, &sa, &sb);
    verdict_entropy(p.kl_divergence(q), n, &sa, &sb);
}
fn g2(r: usize, c: usize) -> Array2<f64> {
    let x = (kani::any::<u8>() & 3) as f64 + 1.0;
    Array2::from_shape_fn((r, c), |(i, j)| if i + j == 0 { x } else { 1.0 })
}

//@ prop=C17 tier=quick mem=6 timeout=2400 inst="cross_entropy / kl_divergence on Array2<f64>" bounds="shape pairs over [2,0], [1,2], [2,1], [2,2]; unwind 8"
#[kani::proof]
#[kani::unwind(8)]
fn c17_entropy_table() {
    entropy_pair(&g2(2, 0), &g2(2, 0));
    entropy_pair(&g2(2, 0), &g2(1, 2));
    entropy_pair(&g2(1, 2), &g2(2, 1));
    entropy_pair(&g2(2, 1), &g2(2, 2));
    entropy_pair(&g2(2, 2), &g2(2, 2));
    entropy_pair(&g2(2, 2), &g2(2, 0));
    kani::cover!(true, "W: reached");
}

/// Quantiles: InvalidQuantile(first offending q) iff some q is outside [0,1], decided before
/// emptiness; EmptyInput iff the chosen axis has length zero.
//@ prop=C17 tier=quick mem=6 timeout=2400 flags=modelmap uses=cut inst="quantile_axis_mut / quantile_mut / quantile_axis_skipnan_mut with EVERY finite q, on arrays whose chosen axis is empty, and every invalid q on non-empty arrays" bounds="q any non-NaN f64; shapes [0], [2,0] (axes 0 and 1), [0,2] (axis 0), [0,3] (axis 1), [2]; unwind 8"
#[kani::proof]
#[kani::unwind(8)]
fn c17_quantile_single_q() {
    let qf: f64 = kani::any();
    kani::assume(qf == qf);
    let q = n64(qf);
    let valid = qf >= 0.0 && qf <= 1.0;
    arm_bulk_contract();
    let mut e1: Array1<i8> = Array1::from(Vec::with_capacity(1));
    let r = e1.quantile_mut(q, &Lower);
    assert!(r == Err(if valid { QuantileError::EmptyInput } else { QuantileError::InvalidQuantile(q) }), "invalid q is reported before emptiness");
    let mut e2: Array2<i8> = Array2::from_shape_vec((2, 0), Vec::with_capacity(1)).unwrap();
    let r = e2.quantile_axis_mut(Axis(1), q, &Nearest);
    assert!(r == Err(if valid { QuantileError::EmptyInput } else { QuantileError::InvalidQuantile(q) }));
    let mut e3: Array2<Option<i8>> = Array2::from_shape_vec((0, 2), Vec::with_capacity(1)).unwrap();
    let r = e3.quantile_axis_skipnan_mut(Axis(0), q, &Lower);
    assert!(r == Err(if valid { QuantileError::EmptyInput } else { QuantileError::InvalidQuantile(q) }));
    // the chosen axis is non-empty but another axis has length zero (no lanes): q is still validated first
    let mut e4: Array2<i8> = Array2::from_shape_vec((2, 0), Vec::with_capacity(1)).unwrap();
    let r = e4.quantile_axis_mut(Axis(0), q, &Lower);
    if valid {
        assert!(matches!(&r, Ok(a) if a.len() == 0), "valid q, no lanes => Ok(empty)");
    } else {
        assert!(r == Err(QuantileError::InvalidQuantile(q)), "invalid q is reported even when there is no lane to compute");
    }
    let mut e5: Array2<i8> = Array2::from_shape_vec((0, 3), Vec::with_capacity(1)).unwrap();
    let r = e5.quantiles_axis_mut(Axis(1), &array![n64(0.5), q], &Nearest);
    if valid {
        assert!(matches!(&r, Ok(a) if a.len() == 0 && a.shape()[1] == 2));
    } else {
        assert!(r == Err(QuantileError::InvalidQuantile(q)));
    }
    if !valid {
        let v: [i8; 2] = kani::any();
        let mut a = Array1::from(v.to_vec());
        assert!(a.quantile_mut(q, &Lower) == Err(QuantileError::InvalidQuantile(q)), "non-empty input, q outside [0,1]");
        let mut b = Array2::from_shape_vec((2, 1), vec![Some(v[0]), None]).unwrap();
        assert!(b.quantile_axis_skipnan_mut(Axis(0), q, &Lower) == Err(QuantileError::InvalidQuantile(q)));
    }
    kani::cover!(qf < 0.0 && qf > -1.0e-300, "W: q just below zero");
    kani::cover!(qf > 1.0 && qf < 1.0000000000000005, "W: q just above one");
    kani::cover!(qf == f64::INFINITY, "W: q = +inf");
    kani::cover!(valid, "W: valid q");
}

//@ prop=C17 tier=quick mem=6 timeout=2400 flags=modelmap uses=cut inst="quantiles_axis_mut / quantiles_mut with 3 symbolic q, at least one invalid, on empty and non-empty arrays" bounds="qs any non-NaN f64 triple with an invalid entry; shapes [0], [2], [2,0]; unwind 8"
#[kani::proof]
#[kani::unwind(8)]
fn c17_quantile_bulk_first_offender() {
    let qf: [f64; 3] = kani::any();
    kani::assume(qf[0] == qf[0] && qf[1] == qf[1] && qf[2] == qf[2]);
    let bad = [!(qf[0] >= 0.0 && qf[0] <= 1.0), !(qf[1] >= 0.0 && qf[1] <= 1.0), !(qf[2] >= 0.0 && qf[2] <= 1.0)];
    kani::assume(bad[0] || bad[1] || bad[2]);
    let first = if bad[0] { qf[0] } else if bad[1] { qf[1] } else { qf[2] };
    let qs = array![n64(qf[0]), n64(qf[1]), n64(qf[2])];
    arm_bulk_contract();
    let v: [i8; 2] = kani::any();
    let mut a = Array1::from(v.to_vec());
    assert!(a.quantiles_mut(&qs, &Linear) == Err(QuantileError::InvalidQuantile(n64(first))), "carries the FIRST offending q");
    let mut e1: Array1<i8> = Array1::from(Vec::with_capacity(1));
    assert!(e1.quantiles_mut(&qs, &Lower) == Err(QuantileError::InvalidQuantile(n64(first))), "before emptiness");
    let mut e2: Array2<i8> = Array2::from_shape_vec((2, 0), Vec::with_capacity(1)).unwrap();
    assert!(e2.quantiles_axis_mut(Axis(1), &qs, &Lower) == Err(QuantileError::InvalidQuantile(n64(first))));
    kani::cover!(!bad[0] && bad[1] && bad[2] && qf[1] != qf[2], "W: two different invalid q, the first one valid");
}

/// cov / pearson_correlation at Q. Known findings (pinned by the crate's own unit tests): cov on a
/// (0, k) array returns Ok and on a (k, 0) array panics; verified here on the complement.
//@ prop=C17 tier=quick mem=6 timeout=2400 uses=Q inst="pearson_correlation on Array2<Q> of shapes [0,2], [2,0], [0,0]" bounds="empty inputs; unwind 12"
#[kani::proof]
#[kani::unwind(12)]
fn c17_pearson_empty() {
    let a02: Array2<Q> = Array2::from_shape_vec((0, 2), Vec::with_capacity(1)).unwrap();
    let a20: Array2<Q> = Array2::from_shape_vec((2, 0), Vec::with_capacity(1)).unwrap();
    let a00: Array2<Q> = Array2::from_shape_vec((0, 0), Vec::with_capacity(1)).unwrap();
    assert!(a02.pearson_correlation() == Err(EmptyInput));
    assert!(a20.pearson_correlation() == Err(EmptyInput));
    assert!(a00.pearson_correlation() == Err(EmptyInput));
    kani::cover!(true, "W: reached");
}

//@ prop=C17 tier=quick kind=known:c17-cov-zero-variables mem=6 timeout=2400 uses=Q inst="cov(1) on Array2<Q> of shape [0,2]" bounds="the known-finding input only; unwind 12"
#[kani::proof]
#[kani::unwind(12)]
fn c17_known_cov_zero_variables() {
    let a02: Array2<Q> = Array2::from_shape_vec((0, 2), Vec::with_capacity(1)).unwrap();
    let r = a02.cov(Q::int(1));
    assert!(r == Err(EmptyInput), "an input with no elements must give EmptyInput");
}

//@ prop=C17 tier=quick kind=known:c17-cov-zero-observations mem=6 timeout=2400 uses=Q inst="cov(0) on Array2<Q> of shape [2,0]" bounds="the known-finding input only; unwind 12"
#[kani::proof]
#[kani::unwind(12)]
fn c17_known_cov_zero_observations() {
    let a20: Array2<Q> = Array2::from_shape_vec((2, 0), Vec::with_capacity(1)).unwrap();
    let r = a20.cov(Q::int(0));
    assert!(r == Err(EmptyInput), "an input with no elements must give EmptyInput, not a panic");
}
