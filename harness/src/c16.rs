//! C16 — out-of-range positions are always rejected (in-range never: proved by the C02/C13/C15 harnesses).
use crate::c02::{arm_select_step, model_sort};
use crate::common::*;
use ndarray::prelude::*;
use ndarray_stats::histogram::{Bins, Edges, Grid};
use ndarray_stats::verif_hooks as vh;
use ndarray_stats::Sort1dExt;

/// Must-panic inductive step: i >= len, outermost call real, recursive calls go to the contract
/// whose precondition assertion (`rebased index < sub-view length`) is the induction hypothesis
/// "a shorter array rejects an out-of-range index by panicking".
fn select_oob<const N: usize>() {
    let vals: [u8; N] = kani::any();
    let len: usize = kani::any();
    kani::assume(len <= N);
    let i: usize = kani::any();
    kani::assume(i >= len);
    let mut a = Array1::from(vals.to_vec());
    arm_select_step(len);
    kani::cover!(len == 0, "W: empty array");
    kani::cover!(len == 1 && i == 1, "W: single element, index == len");
    kani::cover!(len == N && i == usize::MAX, "W: full length, usize::MAX");
    let _r = a.slice_mut(s![..len]).get_from_sorted_mut(i);
    kani::cover!(true, "NR: get_from_sorted_mut returned for an out-of-range index");
}

//@ prop=C16 tier=quick kind=panic mem=4 timeout=1800 uses=cut,pivot inst="get_from_sorted_mut on ArrayViewMut1<u8>, debug assertions on" bounds="len 0..=4, every i >= len up to usize::MAX, every pivot; inductive step; unwind 6"
#[kani::proof]
#[kani::unwind(6)]
#[kani::should_panic]
fn c16_select_oob_n4() {
    select_oob::<4>();
}

//@ prop=C16 tier=quick kind=panic mem=4 timeout=1800 flags=nodebug uses=cut,pivot inst="get_from_sorted_mut on ArrayViewMut1<u8>, -C debug-assertions=off" bounds="len 0..=4, every i >= len up to usize::MAX, every pivot; inductive step; unwind 6"
#[kani::proof]
#[kani::unwind(6)]
#[kani::should_panic]
fn c16_select_oob_n4_nodebug() {
    select_oob::<4>();
}

/// Bulk selection with a request list of concrete length M containing at least one out-of-range
/// entry, on an array of concrete length N.
fn bulk_oob<const N: usize, const M: usize>() {
    let vals: [u8; N] = kani::any();
    let req: [usize; M] = kani::any();
    let mut any_oob = false;
    let mut k = 0;
    while k < M {
        if req[k] >= N {
            any_oob = true;
        }
        k += 1;
    }
    kani::assume(any_oob);
    let mut a = Array1::from(vals.to_vec());
    let reqa = Array1::from(req.to_vec());
    crate::c02::arm_bulk_contract();
    kani::cover!(req[0] == N, "W: first index == len");
    kani::cover!(M < 2 || (req[0] == 0 && req[M - 1] == usize::MAX), "W: in-range mixed with usize::MAX");
    let _map = a.get_many_from_sorted_mut(&reqa);
    kani::cover!(true, "NR: get_many_from_sorted_mut returned although an index was out of range");
}

//@ prop=C16 tier=quick kind=panic mem=6 timeout=1800 flags=modelmap,stub uses=cut inst="get_many_from_sorted_mut on Array1<u8> len 3, 2 requested indexes; recursive routine cut to its contract (which asserts indexes in bounds)" bounds="len 3, 2 requested indexes, at least one >= len (up to usize::MAX); unwind 6"
#[kani::proof]
#[kani::unwind(6)]
#[kani::should_panic]
#[kani::stub(core::slice::sort::unstable::sort, model_sort)]
fn c16_bulk_oob_n3_m2() {
    bulk_oob::<3, 2>();
}

//@ prop=C16 tier=quick kind=panic mem=6 timeout=1800 flags=modelmap,stub,nodebug uses=cut inst="get_many_from_sorted_mut on Array1<u8> len 3, -C debug-assertions=off" bounds="len 3, 2 requested indexes, at least one >= len; unwind 6"
#[kani::proof]
#[kani::unwind(6)]
#[kani::should_panic]
#[kani::stub(core::slice::sort::unstable::sort, model_sort)]
fn c16_bulk_oob_n3_m2_nodebug() {
    bulk_oob::<3, 2>();
}

//@ prop=C16 tier=quick kind=panic mem=4 timeout=1800 flags=modelmap,stub uses=cut inst="get_many_from_sorted_mut on Array1<u8> len 1, 1 requested index" bounds="len 1, one requested index >= 1; unwind 6"
#[kani::proof]
#[kani::unwind(6)]
#[kani::should_panic]
#[kani::stub(core::slice::sort::unstable::sort, model_sort)]
fn c16_bulk_oob_n1_m1() {
    bulk_oob::<1, 1>();
}

//@ prop=C16 tier=quick kind=panic mem=4 timeout=1800 flags=modelmap,stub uses=cut inst="get_many_from_sorted_mut on an EMPTY Array1<u8>, 1 requested index" bounds="len 0, any requested index; unwind 6"
#[kani::proof]
#[kani::unwind(6)]
#[kani::should_panic]
#[kani::stub(core::slice::sort::unstable::sort, model_sort)]
fn c16_bulk_oob_n0_m1() {
    bulk_oob::<0, 1>();
}

fn partition_oob<const N: usize>() {
    let vals: [u8; N] = kani::any();
    let len: usize = kani::any();
    kani::assume(len <= N);
    let p: usize = kani::any();
    kani::assume(p >= len);
    let mut a = Array1::from(vals.to_vec());
    kani::cover!(len == 0, "W: empty array");
    kani::cover!(len == N && p == N, "W: position == len");
    let _k = a.slice_mut(s![..len]).partition_mut(p);
    kani::cover!(true, "NR: partition_mut returned for an out-of-range pivot position");
}

//@ prop=C16 tier=quick kind=panic mem=2 timeout=900 inst="partition_mut on ArrayViewMut1<u8>" bounds="len 0..=4, every pivot position >= len; unwind 6"
#[kani::proof]
#[kani::unwind(6)]
#[kani::should_panic]
fn c16_partition_oob_n4() {
    partition_oob::<4>();
}

//@ prop=C16 tier=quick kind=panic mem=2 timeout=900 flags=nodebug inst="partition_mut on ArrayViewMut1<u8>, -C debug-assertions=off" bounds="len 0..=4, every pivot position >= len; unwind 6"
#[kani::proof]
#[kani::unwind(6)]
#[kani::should_panic]
fn c16_partition_oob_n4_nodebug() {
    partition_oob::<4>();
}

/// Bins::index(i >= len) and Grid::index with an out-of-range coordinate / wrong arity.
fn bins_oob(nodebug: bool) {
    // fixed-length edge list (a symbolic-length sort would unwind all of std's pdqsort);
    // duplicates collapse, so 3 symbolic edges give 0, 1 or 2 bins
    let e: [u8; 3] = kani::any();
    let bins = Bins::new(Edges::from(e.to_vec()));
    let i: usize = kani::any();
    kani::assume(i >= bins.len());
    kani::cover!(bins.len() == 2 && i == 2, "W: two bins, index 2");
    kani::cover!(bins.len() == 0 && i == 0, "W: no bins, index 0");
    let _r = bins.index(i);
    kani::cover!(true, "NR: Bins::index returned for an out-of-range bin");
}

//@ prop=C16 tier=quick kind=panic mem=2 timeout=900 inst="Bins<u8>::index" bounds="3 symbolic edges, duplicates collapse (0..=2 bins), every i >= len; unwind 6"
#[kani::proof]
#[kani::unwind(6)]
#[kani::should_panic]
fn c16_bins_index_oob() {
    bins_oob(false);
}

//@ prop=C16 tier=thorough kind=panic mem=2 timeout=900 flags=nodebug inst="Bins<u8>::index, -C debug-assertions=off" bounds="3 symbolic edges, duplicates collapse, every i >= len; unwind 6"
#[kani::proof]
#[kani::unwind(6)]
#[kani::should_panic]
fn c16_bins_index_oob_nodebug() {
    bins_oob(true);
}

fn grid_oob() {
    let e0: [u8; 3] = kani::any();
    let e1: [u8; 2] = kani::any();
    let b0 = Bins::new(Edges::from(e0.to_vec()));
    let b1 = Bins::new(Edges::from(e1.to_vec()));
    let grid = Grid::from(vec![b0, b1]);
    let s0 = grid.shape()[0];
    let s1 = grid.shape()[1];
    let which: u8 = kani::any();
    let i0: usize = kani::any();
    let i1: usize = kani::any();
    kani::cover!(s0 == 2 && s1 == 1 && which == 0 && i0 == 2 && i1 == 0, "W: first coordinate == bin count");
    kani::cover!(s0 == 2 && s1 == 1 && which == 2, "W: wrong arity");
    match which {
        0 => {
            kani::assume(i0 >= s0 || i1 >= s1);
            let _r = grid.index(&[i0, i1]);
        }
        1 => {
            let _r = grid.index(&[i0]);
        }
        _ => {
            let _r = grid.index(&[i0, i1, 0]);
        }
    }
    kani::cover!(true, "NR: Grid::index returned for an out-of-range / wrong-arity index");
}

//@ prop=C16 tier=quick kind=panic mem=4 timeout=1800 inst="Grid<u8>::index, 2 axes" bounds="axes built from 3 and 2 symbolic edges; one coordinate out of range, or arity 1 / 3; unwind 6"
#[kani::proof]
#[kani::unwind(6)]
#[kani::should_panic]
fn c16_grid_index_oob() {
    grid_oob();
}
