//! C18 — bulk routines equal their single-item counterparts item by item.
//! (Per-axis weighted sum / mean / var / std vs lane-wise: see c06.rs and c07.rs, tagged C18.)
use crate::c01::{sort_small, T3};
use crate::c02::{arm_bulk_contract, arm_select_step};
use crate::common::*;
use crate::q::Q;
use ndarray::prelude::*;
use ndarray_stats::interpolate::{Higher, Interpolate, Linear, Lower, Midpoint, Nearest};
use ndarray_stats::verif_hooks as vh;
use ndarray_stats::{Quantile1dExt, QuantileExt, Sort1dExt, SummaryStatisticsExt};
use noisy_float::types::{n64, N64};

/// quantiles_axis_mut slice j == quantile_axis_mut(q_j) on a clone, for a concrete request list.
fn bulk_vs_single<I: Interpolate<i16>, const R: usize, const C: usize, const RC: usize, const M: usize>(
    interp: &I,
    layout: u8,
    axis: usize,
    qs: [f64; M],
) {
    let pay: [i8; RC] = kani::any();
    let mut vals = [0i16; RC];
    let mut k = 0;
    while k < RC {
        vals[k] = pay[k] as i16;
        k += 1;
    }
    let mut p = parent2(&vals, R, C, layout, 0i16);
    let mut qv = Vec::with_capacity(M + 1);
    let mut j = 0;
    while j < M {
        qv.push(n64(qs[j]));
        j += 1;
    }
    let qarr = Array1::from(qv);
    arm_bulk_contract();
    let bulk = {
        let mut v = view2_mut(&mut p, layout);
        v.quantiles_axis_mut(Axis(axis), &qarr, interp).unwrap()
    };
    let mut j = 0;
    while j < M {
        let mut fresh = parent2(&vals, R, C, layout, 0i16);
        let mut v = view2_mut(&mut fresh, layout);
        let single = v.quantile_axis_mut(Axis(axis), n64(qs[j]), interp).unwrap();
        let slice = bulk.index_axis(Axis(axis), j);
        assert!(single.len() == slice.len());
        let mut l = 0;
        while l < single.len() {
            assert!(single[l] == slice[l], "j-th slice of the bulk result == the single quantile for the j-th q");
            l += 1;
        }
        j += 1;
    }
    kani::cover!(pay[0] != pay[RC - 1], "W: non-constant data");
}

//@ prop=C18,C01:thorough tier=quick mem=8 timeout=3600 flags=modelmap uses=cut inst="quantiles_axis_mut vs quantile_axis_mut, Midpoint, ArrayViewMut2<i16> 2x1 (one lane of 2), Axis(0), qs = [0.2, 0.5] (ascending, both inside the same gap)" bounds="i8-range payloads; unwind 8"
#[kani::proof]
#[kani::unwind(8)]
fn c18_bulk_vs_single_midpoint() {
    bulk_vs_single::<_, 2, 1, 2, 2>(&Midpoint, 0, 0, [0.2, 0.5]);
}
// (not registered: not verified to finish within the session's budget on this machine) prop=C18,C01 tier=thorough mem=8 timeout=5400 flags=modelmap uses=cut inst="quantiles_axis_mut vs quantile_axis_mut, Midpoint, ArrayViewMut2<i16> 3x1, Axis(0), qs = [0.25, 0.3, 0.3] (ascending, two q inside the same gap, a repeat)" bounds="i8-range payloads; unwind 12"
#[allow(dead_code)]
// #[kani::unwind(12)]
fn c18_bulk_vs_single_midpoint_3x1() {
    bulk_vs_single::<_, 3, 1, 3, 3>(&Midpoint, 0, 0, [0.25, 0.3, 0.3]);
}
// (not registered: not verified to finish within the session's budget on this machine) prop=C18,C01 tier=thorough mem=10 timeout=7200 flags=modelmap uses=cut inst="quantiles_axis_mut vs quantile_axis_mut, Midpoint, ArrayViewMut2<i16> 3x2 F-order, Axis(0), qs = [0.25, 0.3, 0.75]" bounds="i8-range payloads; unwind 12"
#[allow(dead_code)]
// #[kani::unwind(12)]
fn c18_bulk_vs_single_midpoint_3x2() {
    bulk_vs_single::<_, 3, 2, 6, 3>(&Midpoint, 1, 0, [0.25, 0.3, 0.75]);
}
// (not registered: not verified to finish within the session's budget on this machine) prop=C18,C01 tier=thorough mem=10 timeout=5400 flags=modelmap uses=cut inst="quantiles_axis_mut vs quantile_axis_mut, Linear, ArrayViewMut2<i16> 2x3 stepped, Axis(1), qs = [0.3, 0.5, 0.0]" bounds="i8-range payloads; unwind 10"
#[allow(dead_code)]
// #[kani::unwind(10)]
fn c18_bulk_vs_single_linear() {
    bulk_vs_single::<_, 2, 3, 6, 3>(&Linear, 2, 1, [0.3, 0.5, 0.0]);
}
// (not registered: not verified to finish within the session's budget on this machine) prop=C18,C01 tier=thorough mem=10 timeout=5400 flags=modelmap uses=cut inst="quantiles_axis_mut vs quantile_axis_mut, Nearest, ArrayViewMut2<i16> 3x2 reversed, Axis(0), qs = [0.5+ulp, 0.5-ulp]" bounds="i8-range payloads; unwind 10"
#[allow(dead_code)]
// #[kani::unwind(10)]
fn c18_bulk_vs_single_nearest() {
    bulk_vs_single::<_, 3, 2, 6, 2>(&Nearest, 3, 0, [0.5000000000000001, 0.49999999999999994]);
}

/// The entry for index i of bulk selection equals single selection of i (both cut to their
/// contracts, which pin the value by rank; the steps are proved under C02).
//@ prop=C18,C02:thorough tier=quick mem=6 timeout=2400 flags=modelmap,stub uses=cut inst="get_many_from_sorted_mut(&[i0, i1])[i] vs get_from_sorted_mut(i) on Array1<u8> len 3" bounds="all contents, all index pairs; unwind 8"
#[kani::proof]
#[kani::unwind(8)]
#[kani::stub(core::slice::sort::unstable::sort, crate::c02::model_sort)]
fn c18_get_many_vs_single() {
    let vals: [u8; 3] = kani::any();
    let i0: usize = kani::any();
    let i1: usize = kani::any();
    kani::assume(i0 < 3 && i1 < 3);
    arm_bulk_contract();
    let mut a = Array1::from(vals.to_vec());
    let map = a.get_many_from_sorted_mut(&array![i0, i1]);
    unsafe {
        vh::SELECT_CUT_AFTER = 0;
        vh::SELECT_CALLS = 0;
        vh::STEP_PARENT_LEN = usize::MAX;
    }
    let mut b = Array1::from(vals.to_vec());
    let s0 = b.get_from_sorted_mut(i0);
    let mut c = Array1::from(vals.to_vec());
    let s1 = c.get_from_sorted_mut(i1);
    assert!(map[&i0] == s0 && map[&i1] == s1, "bulk entry for i == single selection of i");
    kani::cover!(i0 == 2 && i1 == 0 && s0 != s1, "W: unordered indexes, different values");
}

/// central_moments(p)[k] == central_moment(k) for every k <= p, at Q.
fn moments_bulk_vs_single<const N: usize>(p: u16) {
    let mut xv = Vec::with_capacity(N);
    let mut k = 0;
    while k < N {
        let b: u8 = kani::any();
        xv.push(Q::int((b & 3) as i64));
        k += 1;
    }
    let a = Array1::from(xv);
    let ms = a.central_moments(p).unwrap();
    assert!(ms.len() == p as usize + 1);
    let mut k = 0u16;
    while k <= p {
        let single = a.central_moment(k).unwrap();
        assert!(ms[k as usize] == single, "central_moments(p)[k] == central_moment(k)");
        k += 1;
    }
    kani::cover!(ms[p as usize] != Q::int(0), "W: non-zero top moment");
}

//@ prop=C18,C07:thorough tier=quick mem=6 timeout=3000 uses=Q inst="central_moments(3) vs central_moment(0..=3) on Array1<Q> len 3" bounds="x in 0..=3; unwind 18"
#[kani::proof]
#[kani::unwind(18)]
fn c18_moments_q_n3_p3() {
    moments_bulk_vs_single::<3>(3);
}
// (not registered: the harness's exact scalar Q (i64/i64, unnormalised) overflows at order 4: a defect of the harness, not of the crate) prop=C18,C07 tier=thorough mem=8 timeout=7200 uses=Q inst="central_moments(4) vs central_moment(0..=4) on Array1<Q> len 3" bounds="x in 0..=3; unwind 18"
#[allow(dead_code)]
// #[kani::unwind(18)]
fn c18_moments_q_n3_p4() {
    moments_bulk_vs_single::<3>(4);
}
