//! C19 — quantiles obey order laws independent of any oracle.
use crate::c01::{sort_small, T2, T3};
use crate::c02::arm_bulk_contract;
use crate::common::*;
use ndarray::prelude::*;
use ndarray_stats::interpolate::{Higher, Interpolate, Linear, Lower, Midpoint, Nearest};
use ndarray_stats::verif_hooks as vh;
use ndarray_stats::{Quantile1dExt, QuantileExt};
use noisy_float::types::{n64, N64};

/// Kernel: both indexes are non-decreasing in q; q = 0 and q = 1 hit the ends.
//@ prop=C19 tier=quick mem=2 timeout=900 inst="lower_index / higher_index" bounds="every pair q1 <= q2 in [0,1], lane length 1..=64; no loops"
#[kani::proof]
fn c19_index_monotone() {
    let q1: f64 = kani::any();
    let q2: f64 = kani::any();
    kani::assume(q1 >= 0.0 && q1 <= q2 && q2 <= 1.0);
    let len: usize = kani::any();
    kani::assume(len >= 1 && len <= 64);
    let (lo1, hi1) = (vh::verif_lower_index(n64(q1), len), vh::verif_higher_index(n64(q1), len));
    let (lo2, hi2) = (vh::verif_lower_index(n64(q2), len), vh::verif_higher_index(n64(q2), len));
    assert!(lo1 <= lo2 && hi1 <= hi2, "indexes are non-decreasing in q");
    assert!(vh::verif_lower_index(n64(0.0), len) == 0 && vh::verif_higher_index(n64(0.0), len) == 0, "q = 0 selects position 0");
    assert!(vh::verif_lower_index(n64(1.0), len) == len - 1 && vh::verif_higher_index(n64(1.0), len) == len - 1, "q = 1 selects the last position");
    kani::cover!(lo1 < lo2 && hi1 == lo2, "W: adjacent positions");
}

/// Kernel: Lower <= {Nearest, Midpoint, Linear} <= Higher; all five equal when the operands are.
macro_rules! order_int {
    ($name:ident, $t:ty, $wide:ty, $max:expr) => {
        fn $name() {
            let l: $t = kani::any();
            let h: $t = kani::any();
            kani::assume(l <= h && (h as $wide) - (l as $wide) <= ($max as $wide));
            let qf: f64 = kani::any();
            kani::assume(qf >= 0.0 && qf <= 1.0);
            let len: usize = kani::any();
            kani::assume(len >= 1 && len <= 64);
            let q = n64(qf);
            let lw = <Lower as Interpolate<$t>>::interpolate(Some(l), Some(h), q, len);
            let hg = <Higher as Interpolate<$t>>::interpolate(Some(l), Some(h), q, len);
            let nr = <Nearest as Interpolate<$t>>::interpolate(Some(l), Some(h), q, len);
            let md = <Midpoint as Interpolate<$t>>::interpolate(Some(l), Some(h), q, len);
            let li = <Linear as Interpolate<$t>>::interpolate(Some(l), Some(h), q, len);
            assert!(lw <= nr && nr <= hg && lw <= md && md <= hg && lw <= li && li <= hg, "Lower <= Nearest, Midpoint, Linear <= Higher");
            if l == h {
                assert!(lw == l && hg == l && nr == l && md == l && li == l, "all five coincide when lower == higher (integral (N-1)q)");
            }
            if vh::verif_index_fraction(q, len).raw() == 0.0 {
                assert!(li == l && nr == l, "zero fraction: Linear and Nearest return the lower operand");
            }
            kani::cover!(lw < md && md < hg && lw < li && li < hg, "W: strict inequalities");
        }
    };
}
order_int!(order_i8, i8, i32, i8::MAX);
order_int!(order_u16, u16, i32, u16::MAX);

//@ prop=C19 tier=quick mem=2 timeout=1800 inst="the five strategies at i8" bounds="all lower <= higher with spread <= i8::MAX, every q, N 1..=64"
#[kani::proof]
fn c19_order_i8() {
    order_i8();
}
//@ prop=C19 tier=thorough mem=2 timeout=1800 inst="the five strategies at u16" bounds="all lower <= higher, every q, N 1..=64"
#[kani::proof]
fn c19_order_u16() {
    order_u16();
}

// (not registered: not verified to finish within the session's budget on this machine) prop=C19 tier=thorough mem=3 timeout=7200 inst="Linear at N64 against its bounds" bounds="all finite lower <= higher with |v| <= 2^100, every q, N 1..=64; Linear in [lower, next_up(higher)]"
#[allow(dead_code)]
fn c19_order_n64_linear() {
    let l: f64 = kani::any();
    let h: f64 = kani::any();
    kani::assume(l <= h && l >= -1.0e30 && h <= 1.0e30);
    let qf: f64 = kani::any();
    kani::assume(qf >= 0.0 && qf <= 1.0);
    let len: usize = kani::any();
    kani::assume(len >= 1 && len <= 64);
    let q = n64(qf);
    let li = <Linear as Interpolate<N64>>::interpolate(Some(n64(l)), Some(n64(h)), q, len).raw();
    // one unit in the last place above `higher` is allowed for floating-point Linear
    let up = if h > 0.0 { f64::from_bits(h.to_bits() + 1) } else if h < 0.0 { f64::from_bits(h.to_bits() - 1) } else { f64::MIN_POSITIVE };
    assert!(l <= li && li <= up, "Lower <= Linear <= Higher up to one ulp");
    if l == h {
        assert!(li == l, "coincides when lower == higher");
    }
    kani::cover!(l < 0.0 && h > 1.0 && qf == 0.3 && len == 5, "W: interior point");
}

/// Pipeline level, one lane of 3: every strategy is monotone in q over the table, q = 0 / 1 give
/// the minimum / maximum, and the result does not change under a symbolic permutation of the lane.
fn lane_laws<I: Interpolate<i16>, const NQ: usize>(interp: &I) {
    let pay: [i8; 3] = kani::any();
    let vals = [pay[0] as i16, pay[1] as i16, pay[2] as i16];
    let mn = vals[0].min(vals[1]).min(vals[2]);
    let mx = vals[0].max(vals[1]).max(vals[2]);
    // a symbolic permutation of the lane
    let s: u8 = kani::any();
    kani::assume(s < 6);
    let perm: [usize; 3] = match s {
        0 => [0, 1, 2],
        1 => [0, 2, 1],
        2 => [1, 0, 2],
        3 => [1, 2, 0],
        4 => [2, 0, 1],
        _ => [2, 1, 0],
    };
    let pv = [vals[perm[0]], vals[perm[1]], vals[perm[2]]];
    arm_bulk_contract();
    // ascending q (NQ of them): 0, 0.25, 0.5+ulp, 1 [, 0.3, 0.5-ulp, 0.5, 0.75 in the long form]
    let qs8 = [T3[0].0, T3[3].0, T3[5].0, T3[6].0, T3[2].0, T3[7].0, T3[4].0, T3[1].0];
    let qs4 = [T3[0].0, T3[3].0, T3[7].0, T3[1].0];
    let mut qv = Vec::with_capacity(NQ + 1);
    let mut j = 0;
    while j < NQ {
        qv.push(n64(if NQ == 8 { qs8[j] } else { qs4[j] }));
        j += 1;
    }
    let qarr = Array1::from(qv);
    let mut a = Array1::from(vals.to_vec());
    let r = a.quantiles_mut(&qarr, interp).unwrap();
    let mut b = Array1::from(pv.to_vec());
    let rp = b.quantiles_mut(&qarr, interp).unwrap();
    let mut j = 0;
    while j < NQ {
        assert!(mn <= r[j] && r[j] <= mx, "between the lane minimum and maximum");
        if j > 0 {
            assert!(r[j - 1] <= r[j], "non-decreasing in q");
        }
        assert!(r[j] == rp[j], "unchanged when the lane is permuted");
        j += 1;
    }
    assert!(r[0] == mn && r[NQ - 1] == mx, "q = 0 returns the minimum, q = 1 the maximum");
    kani::cover!(s == 4 && pay[0] < pay[1] && pay[1] < pay[2], "W: a 3-cycle permutation of distinct values");
}

//@ prop=C19,C01:thorough tier=quick mem=10 timeout=3600 flags=modelmap uses=cut inst="quantiles_mut([0, 0.25, 0.5+ulp, 1], Midpoint) on Array1<i16> len 3 and on a symbolic permutation of it" bounds="i8-range payloads, all 6 permutations; unwind 12"
#[kani::proof]
#[kani::unwind(12)]
fn c19_lane_laws_midpoint() {
    lane_laws::<_, 4>(&Midpoint);
}
// (the 8-request form of this harness ran out of memory at 32 GB and is not registered)
// (not registered: not verified to finish within the session's budget on this machine) prop=C19,C01 tier=thorough mem=10 timeout=5400 flags=modelmap uses=cut inst="quantiles_mut([0, 0.25, 0.5+ulp, 1], Linear) on Array1<i16> len 3 and a permutation" bounds="i8-range payloads; unwind 12"
#[allow(dead_code)]
// #[kani::unwind(12)]
fn c19_lane_laws_linear() {
    lane_laws::<_, 4>(&Linear);
}
//@ prop=C19,C01 tier=thorough mem=10 timeout=5400 flags=modelmap uses=cut inst="quantiles_mut([0, 0.25, 0.5+ulp, 1], Nearest) on Array1<i16> len 3 and a permutation" bounds="i8-range payloads; unwind 12"
#[kani::proof]
#[kani::unwind(12)]
fn c19_lane_laws_nearest() {
    lane_laws::<_, 4>(&Nearest);
}
//@ prop=C19,C01 tier=thorough mem=10 timeout=5400 flags=modelmap uses=cut inst="quantiles_mut([0, 0.25, 0.5+ulp, 1], Lower) on Array1<i16> len 3 and a permutation" bounds="i8-range payloads; unwind 12"
#[kani::proof]
#[kani::unwind(12)]
fn c19_lane_laws_lower() {
    lane_laws::<_, 4>(&Lower);
}

/// The selecting strategies commute with any strictly increasing relabelling of the data.
fn relabel<I: Interpolate<u8>>(interp: &I) {
    // f: {0,1,2,3} -> u8 strictly increasing
    let f: [u8; 4] = kani::any();
    kani::assume(f[0] < f[1] && f[1] < f[2] && f[2] < f[3]);
    let c: [u8; 3] = kani::any();
    kani::assume(c[0] < 4 && c[1] < 4 && c[2] < 4);
    let qarr = array![n64(T3[0].0), n64(T3[5].0), n64(T3[1].0)];
    arm_bulk_contract();
    let mut a = Array1::from(c.to_vec());
    let r = a.quantiles_mut(&qarr, interp).unwrap();
    let mut b = Array1::from(vec![f[c[0] as usize], f[c[1] as usize], f[c[2] as usize]]);
    let rf = b.quantiles_mut(&qarr, interp).unwrap();
    let mut j = 0;
    while j < 3 {
        assert!(rf[j] == f[r[j] as usize], "quantile(f(data)) == f(quantile(data)) for a strictly increasing f");
        j += 1;
    }
    kani::cover!(c[0] == 3 && c[1] == 0 && c[2] == 2 && f[3] == 255 && f[0] == 0, "W: distinct codes, extreme relabelling");
}

//@ prop=C19,C01:thorough tier=quick mem=8 timeout=3600 flags=modelmap uses=cut inst="Nearest on Array1<u8> len 3 vs the relabelled lane" bounds="codes in 0..=3, every strictly increasing f: {0..3} -> u8, q in {0, 0.3, 1}; unwind 12"
#[kani::proof]
#[kani::unwind(12)]
fn c19_relabel_nearest() {
    relabel(&Nearest);
}
//@ prop=C19,C01 tier=thorough mem=8 timeout=5400 flags=modelmap uses=cut inst="Lower on Array1<u8> len 3 vs the relabelled lane" bounds="codes in 0..=3, every strictly increasing f; unwind 10"
#[kani::proof]
#[kani::unwind(12)]
fn c19_relabel_lower() {
    relabel(&Lower);
}
//@ prop=C19,C01 tier=thorough mem=8 timeout=5400 flags=modelmap uses=cut inst="Higher on Array1<u8> len 3 vs the relabelled lane" bounds="codes in 0..=3, every strictly increasing f; unwind 10"
#[kani::proof]
#[kani::unwind(12)]
fn c19_relabel_higher() {
    relabel(&Higher);
}
