//! C01 — quantiles equal the documented order statistic of every lane.
//! Decided compositionally: (1) the index kernel for ALL q, (2) the interpolation kernels for all
//! operands, (3) the pipeline on symbolic lanes with q taken from a table of boundary cases, bulk
//! selection cut to its contract (proved under C02) and ModelMap in place of IndexMap.
use crate::c02::arm_bulk_contract;
use crate::common::*;
use ndarray::prelude::*;
use ndarray_stats::interpolate::{Higher, Interpolate, Linear, Lower, Midpoint, Nearest};
use ndarray_stats::verif_hooks as vh;
use ndarray_stats::{Quantile1dExt, QuantileExt};
use noisy_float::types::{n64, N64};

// ------------------------------------------------------------------ (1) index kernel

fn index_kernel(len_lo: usize, len_hi: usize) {
    let qf: f64 = kani::any();
    kani::assume(qf >= 0.0 && qf <= 1.0);
    let len: usize = kani::any();
    kani::assume(len >= len_lo && len <= len_hi);
    let q = n64(qf);
    let lo = vh::verif_lower_index(q, len);
    let hi = vh::verif_higher_index(q, len);
    let fr = vh::verif_index_fraction(q, len).raw();
    let x = qf * ((len - 1) as f64); // the documented position (N-1) q
    assert!(lo as f64 <= x && x <= hi as f64, "lower index <= (N-1)q <= higher index");
    // floor / ceil characterised by exact comparisons (a subtraction such as 1 - 1e-300 rounds to 1)
    assert!(x < (lo + 1) as f64 && (hi == 0 || ((hi - 1) as f64) < x), "floor and ceil of (N-1)q");
    assert!(hi <= len - 1, "indexes stay inside the lane");
    assert!((lo == hi) == (x == x.floor()), "the two indexes coincide iff (N-1)q is integral");
    assert!(fr == x - (lo as f64) && fr >= 0.0 && fr < 1.0, "fraction is (N-1)q - floor((N-1)q)");
    // which side each strategy asks for / unwraps
    assert!(<Lower as Interpolate<i8>>::needs_lower(q, len) && !<Lower as Interpolate<i8>>::needs_higher(q, len));
    assert!(!<Higher as Interpolate<i8>>::needs_lower(q, len) && <Higher as Interpolate<i8>>::needs_higher(q, len));
    assert!(<Midpoint as Interpolate<i8>>::needs_lower(q, len) && <Midpoint as Interpolate<i8>>::needs_higher(q, len));
    assert!(<Linear as Interpolate<i8>>::needs_lower(q, len) && <Linear as Interpolate<i8>>::needs_higher(q, len));
    let nl = <Nearest as Interpolate<i8>>::needs_lower(q, len);
    let nh = <Nearest as Interpolate<i8>>::needs_higher(q, len);
    assert!(nl == (fr < 0.5) && nh == !nl, "Nearest takes the lower side iff the fraction is < 0.5");
    // Nearest unwraps exactly the side it asked for
    let l: i8 = kani::any();
    let h: i8 = kani::any();
    let got = <Nearest as Interpolate<i8>>::interpolate(if nl { Some(l) } else { None }, if nh { Some(h) } else { None }, q, len);
    assert!(got == if fr < 0.5 { l } else { h });
    kani::cover!(len == len_hi && lo == len - 2 && hi == len - 1 && fr == 0.5, "W: a .5 fraction just below the top");
    kani::cover!(qf < 1.0 && qf > 0.0 && lo == hi, "W: integral (N-1)q strictly inside");
}

//@ prop=C01,C19 tier=quick mem=2 timeout=900 inst="lower_index / higher_index / fraction / needs_lower / needs_higher (f64 arithmetic, loop-free)" bounds="EVERY q in [0,1] (all f64 values), lane length 1..=64; no loops"
#[kani::proof]
fn c01_index_kernel_len64() {
    index_kernel(1, 64);
}
// (not registered: not finished within 35 min when tried)  prop=C01,C19 tier=thorough mem=3 timeout=3600 inst="index kernel" bounds="every q in [0,1], lane length 65..=4096"
#[allow(dead_code)]
fn c01_index_kernel_len4096() {
    index_kernel(65, 4096);
}
// (not registered: not finished within 35 min when tried)  prop=C01,C19 tier=thorough mem=3 timeout=3600 inst="index kernel" bounds="every q in [0,1], lane length 4097..=2^20"
#[allow(dead_code)]
fn c01_index_kernel_len1m() {
    index_kernel(4097, 1 << 20);
}

// ------------------------------------------------------------------ (2) interpolation kernels

/// Integer kernels for one element type. `known` = restrict to the known-finding region
/// (signed T, higher - lower > T::MAX) instead of its complement.
macro_rules! interp_int {
    ($name:ident, $t:ty, $wide:ty, $max:expr) => {
        fn $name(region: u8) {
            let l: $t = kani::any();
            let h: $t = kani::any();
            kani::assume(l <= h);
            let spread = (h as $wide) - (l as $wide);
            match region {
                0 => kani::assume(spread <= ($max as $wide)),
                _ => kani::assume(spread > ($max as $wide)),
            }
            let qf: f64 = kani::any();
            kani::assume(qf >= 0.0 && qf <= 1.0);
            let len: usize = kani::any();
            kani::assume(len >= 1 && len <= 64);
            let q = n64(qf);
            let fr = vh::verif_index_fraction(q, len).raw();
            if region != 2 {
                let m = <Midpoint as Interpolate<$t>>::interpolate(Some(l), Some(h), q, len);
                assert!(l <= m && m <= h, "Midpoint stays inside [lower, higher]");
                let twice = 2 * (m as $wide);
                let sum = (l as $wide) + (h as $wide);
                assert!(twice - sum <= 2 && sum - twice <= 2, "Midpoint within one unit of (lower + higher) / 2");
            }
            if region != 1 {
                let x = <Linear as Interpolate<$t>>::interpolate(Some(l), Some(h), q, len);
                assert!(l <= x && x <= h, "Linear stays inside [lower, higher]");
                if fr == 0.0 {
                    assert!(x == l, "zero fraction: Linear returns the lower operand");
                }
            }
            let lw = <Lower as Interpolate<$t>>::interpolate(Some(l), None, q, len);
            let hg = <Higher as Interpolate<$t>>::interpolate(None, Some(h), q, len);
            let nr = <Nearest as Interpolate<$t>>::interpolate(Some(l), Some(h), q, len);
            assert!(lw == l && hg == h && nr == if fr < 0.5 { l } else { h });
            kani::cover!(spread > 2 && qf > 0.2 && qf < 0.3 && len == 3, "W: interior fraction, wide spread");
            kani::cover!(l == h, "W: equal operands");
        }
    };
}
interp_int!(interp_i8, i8, i32, i8::MAX);
interp_int!(interp_u8, u8, i32, u8::MAX);
interp_int!(interp_i16, i16, i32, i16::MAX);
interp_int!(interp_u16, u16, i32, u16::MAX);
interp_int!(interp_i32, i32, i64, i32::MAX);
interp_int!(interp_u32, u32, i64, u32::MAX);

//@ prop=C01,C19 tier=quick mem=2 timeout=1800 inst="Lower/Higher/Nearest/Midpoint/Linear::interpolate at i8" bounds="all lower <= higher with higher - lower <= i8::MAX, every q, N 1..=64"
#[kani::proof]
fn c01_interp_i8() {
    interp_i8(0);
}
//@ prop=C01,C19:thorough tier=quick mem=2 timeout=1800 inst="interpolation kernels at u8" bounds="all lower <= higher, every q, N 1..=64"
#[kani::proof]
fn c01_interp_u8() {
    interp_u8(0);
}
//@ prop=C01,C19 tier=thorough mem=2 timeout=3600 inst="interpolation kernels at i16" bounds="all lower <= higher with spread <= i16::MAX, every q, N 1..=64"
#[kani::proof]
fn c01_interp_i16() {
    interp_i16(0);
}
//@ prop=C01 tier=thorough mem=2 timeout=1800 inst="interpolation kernels at u16" bounds="all operands, every q"
#[kani::proof]
fn c01_interp_u16() {
    interp_u16(0);
}
// (not registered: did not finish in 60 min)  prop=C01 tier=thorough mem=3 timeout=3600 inst="interpolation kernels at i32" bounds="spread <= i32::MAX, every q"
#[allow(dead_code)]
fn c01_interp_i32() {
    interp_i32(0);
}
// (not registered: did not finish in 60 min)  prop=C01 tier=thorough mem=3 timeout=3600 inst="interpolation kernels at u32" bounds="all operands, every q"
#[allow(dead_code)]
fn c01_interp_u32() {
    interp_u32(0);
}

/// Linear accuracy ("within one unit of the exact value") with the fraction taken from a table of
/// (q, N) pairs — with q fully symbolic the 53-bit x 8-bit product against an independent copy of
/// itself did not finish; containment in [lower, higher] IS proved for every q above.
//@ prop=C01 tier=thorough mem=3 timeout=7200 inst="Linear::interpolate at i16, fraction from a table" bounds="all lower <= higher with spread <= i16::MAX; (q,N) in {(0.3,3),(0.25,3),(0.9,4),(0.9999999999999999,2),(0.5,4),(1/3,4),(0.7,64)}"
#[kani::proof]
fn c01_linear_accuracy_i16() {
    let l: i16 = kani::any();
    let h: i16 = kani::any();
    kani::assume(l <= h && (h as i32) - (l as i32) <= i16::MAX as i32);
    let sel: u8 = kani::any();
    let (qf, len) = match sel & 7 {
        0 => (0.3, 3usize),
        1 => (0.25, 3),
        2 => (0.9, 4),
        3 => (0.9999999999999999, 2),
        4 => (0.5, 4),
        5 => (0.3333333333333333, 4),
        _ => (0.7, 64),
    };
    let q = n64(qf);
    let fr = vh::verif_index_fraction(q, len).raw();
    let x = <Linear as Interpolate<i16>>::interpolate(Some(l), Some(h), q, len);
    let exact = (l as f64) + fr * ((h as f64) - (l as f64));
    let d = (x as f64) - exact;
    assert!(d <= 1.0 && d >= -1.0, "Linear within one unit of lower + fraction (higher - lower)");
    assert!(l <= x && x <= h);
    kani::cover!(sel & 7 == 3 && h as i32 - l as i32 == 1000, "W: fraction one ulp below 1");
}

// Known findings (DESIGN §5): signed element types whose spread exceeds T::MAX.
//@ prop=C01 tier=quick kind=known:c01-midpoint-signed-spread mem=2 timeout=900 inst="Midpoint::interpolate at i8 restricted to higher - lower > i8::MAX" bounds="the known-finding region only"
#[kani::proof]
fn c01_known_midpoint_i8_spread() {
    interp_i8(1);
}
//@ prop=C01 tier=quick kind=known:c01-linear-signed-spread mem=2 timeout=900 inst="Linear::interpolate at i8 restricted to higher - lower > i8::MAX" bounds="the known-finding region only"
#[kani::proof]
fn c01_known_linear_i8_spread() {
    interp_i8(2);
}

/// N64 Midpoint / Nearest: bit-equal to the documented formulas evaluated in f64, every q.
// (not registered: did not finish in 45 min)  prop=C01,C19 tier=thorough mem=3 timeout=7200 inst="Midpoint / Nearest ::interpolate at N64" bounds="all finite lower <= higher with |v| <= 2^500, every q, N 1..=64"
#[allow(dead_code)]
fn c01_interp_n64_midpoint_nearest() {
    let l: f64 = kani::any();
    let h: f64 = kani::any();
    kani::assume(l <= h && l >= -3.2e150 && h <= 3.2e150);
    let qf: f64 = kani::any();
    kani::assume(qf >= 0.0 && qf <= 1.0);
    let len: usize = kani::any();
    kani::assume(len >= 1 && len <= 64);
    let q = n64(qf);
    let fr = vh::verif_index_fraction(q, len).raw();
    let m = <Midpoint as Interpolate<N64>>::interpolate(Some(n64(l)), Some(n64(h)), q, len).raw();
    assert!(m.to_bits() == (l + (h - l) / 2.0).to_bits(), "Midpoint == lower + (higher - lower) / 2");
    assert!(l <= m && m <= h);
    let nr = <Nearest as Interpolate<N64>>::interpolate(Some(n64(l)), Some(n64(h)), q, len).raw();
    assert!(nr.to_bits() == if fr < 0.5 { l.to_bits() } else { h.to_bits() });
    kani::cover!(l < -1.0e100 && h > 1.0e100 && qf == 0.25 && len == 4, "W: huge spread");
}

/// N64 Linear: bit-equal to lower + fraction (higher - lower) with the fraction from a table
/// (a symbolic 53 x 53-bit product against an independent copy of itself is an equivalence problem
/// the SAT solver does not close: 30 min time-out); the ordering claims for every q are in c19.
// (not registered: did not finish in 95 min)  prop=C01 tier=thorough mem=3 timeout=7200 inst="Linear::interpolate at N64, fraction from a table" bounds="all finite lower <= higher with |v| <= 2^500; (q,N) in {(0.3,3),(0.25,3),(0.9,4),(1-ulp,2),(0.5,4),(1/3,4),(0.7,64),(1,5)}"
#[allow(dead_code)]
fn c01_interp_n64_linear_table() {
    let l: f64 = kani::any();
    let h: f64 = kani::any();
    kani::assume(l <= h && l >= -3.2e150 && h <= 3.2e150);
    let sel: u8 = kani::any();
    let (qf, len) = match sel & 7 {
        0 => (0.3, 3usize),
        1 => (0.25, 3),
        2 => (0.9, 4),
        3 => (0.9999999999999999, 2),
        4 => (0.5, 4),
        5 => (0.3333333333333333, 4),
        6 => (0.7, 64),
        _ => (1.0, 5),
    };
    let q = n64(qf);
    let fr = vh::verif_index_fraction(q, len).raw();
    let x = <Linear as Interpolate<N64>>::interpolate(Some(n64(l)), Some(n64(h)), q, len).raw();
    assert!(x.to_bits() == (l + fr * (h - l)).to_bits(), "Linear == lower + fraction (higher - lower)");
    kani::cover!(sel & 7 == 3 && l == 1.0 && h == 3.0, "W: fraction one ulp below 1");
}

/// N64 kernels with CONCRETE (q, N) (the all-q forms above did not finish): Midpoint does not depend
/// on q at all; Linear's fraction is then a constant, so the crate's product and the oracle's are the
/// same expression.
fn interp_n64_concrete(qf: f64, len: usize) {
    let l: f64 = kani::any();
    let h: f64 = kani::any();
    kani::assume(l <= h && l >= -3.2e150 && h <= 3.2e150);
    let q = n64(qf);
    let fr = vh::verif_index_fraction(q, len).raw();
    let m = <Midpoint as Interpolate<N64>>::interpolate(Some(n64(l)), Some(n64(h)), q, len).raw();
    assert!(m.to_bits() == (l + (h - l) / 2.0).to_bits(), "Midpoint == lower + (higher - lower) / 2");
    assert!(l <= m && m <= h, "Midpoint inside [lower, higher]");
    let x = <Linear as Interpolate<N64>>::interpolate(Some(n64(l)), Some(n64(h)), q, len).raw();
    assert!(x.to_bits() == (l + fr * (h - l)).to_bits(), "Linear == lower + fraction (higher - lower)");
    assert!(x >= l, "Linear >= lower");
    let nr = <Nearest as Interpolate<N64>>::interpolate(Some(n64(l)), Some(n64(h)), q, len).raw();
    assert!(nr.to_bits() == if fr < 0.5 { l.to_bits() } else { h.to_bits() }, "Nearest picks the lower side iff the fraction is < 0.5");
    kani::cover!(l < -1.0e100 && h > 1.0e100, "W: huge spread");
}

// (not registered: did not finish in 20 min even with a concrete (q, N)) prop=C01,C19:thorough tier=quick mem=2 timeout=1200 inst="Midpoint / Linear / Nearest ::interpolate at N64, q = 0.3, N = 3 (fraction 0.6)" bounds="all finite lower <= higher with |v| <= 2^500; one concrete (q, N)"
#[allow(dead_code)]
fn c01_interp_n64_q03_n3() {
    interp_n64_concrete(0.3, 3);
}
// (not registered: did not finish in 20 min even with a concrete (q, N)) prop=C01,C19 tier=thorough mem=2 timeout=2400 inst="Midpoint / Linear / Nearest ::interpolate at N64, q = 1 - ulp, N = 2 (fraction just below 1)" bounds="all finite lower <= higher with |v| <= 2^500; one concrete (q, N)"
#[allow(dead_code)]
fn c01_interp_n64_q1ulp_n2() {
    interp_n64_concrete(0.9999999999999999, 2);
}
// (not registered: did not finish in 20 min even with a concrete (q, N)) prop=C01,C19 tier=thorough mem=2 timeout=2400 inst="Midpoint / Linear / Nearest ::interpolate at N64, q = 0.25, N = 3 (fraction 0.5)" bounds="all finite lower <= higher with |v| <= 2^500; one concrete (q, N)"
#[allow(dead_code)]
fn c01_interp_n64_q025_n3() {
    interp_n64_concrete(0.25, 3);
}

/// N64 Midpoint and Nearest only (no multiplication involved), concrete (q, N).
// (not registered: not verified to finish within the session's budget on this machine) prop=C01,C19:thorough tier=quick mem=2 timeout=900 inst="Midpoint / Nearest ::interpolate at N64, q = 0.3, N = 3" bounds="all finite lower <= higher with |v| <= 2^500; one concrete (q, N)"
#[allow(dead_code)]
fn c01_interp_n64_midpoint_nearest_q03() {
    let l: f64 = kani::any();
    let h: f64 = kani::any();
    kani::assume(l <= h && l >= -3.2e150 && h <= 3.2e150);
    let q = n64(0.3);
    let m = <Midpoint as Interpolate<N64>>::interpolate(Some(n64(l)), Some(n64(h)), q, 3).raw();
    assert!(m.to_bits() == (l + (h - l) / 2.0).to_bits(), "Midpoint == lower + (higher - lower) / 2");
    assert!(l <= m && m <= h, "Midpoint inside [lower, higher]");
    let nr = <Nearest as Interpolate<N64>>::interpolate(Some(n64(l)), Some(n64(h)), q, 3).raw();
    assert!(nr.to_bits() == h.to_bits(), "fraction 0.6 >= 0.5: Nearest returns the higher operand");
    kani::cover!(l < -1.0e100 && h > 1.0e100, "W: huge spread");
}

// ------------------------------------------------------------------ (3) pipeline

pub fn sort_small<T: Copy + PartialOrd, const L: usize>(v: &mut [T; L], n: usize) {
    let mut i = 1;
    while i < n {
        let mut j = i;
        while j > 0 && v[j] < v[j - 1] {
            let t = v[j];
            v[j] = v[j - 1];
            v[j - 1] = t;
            j -= 1;
        }
        i += 1;
    }
}

/// (q, lower index, higher index) for a lane of the given length: 0, 1, k/(n-1), f64 neighbours
/// of an integral position, .5-fraction points, a generic point. Checked against the kernel by
/// `c01_table_matches_kernel`.
pub const T3: [(f64, usize, usize); 8] = [
    (0.0, 0, 0),
    (1.0, 2, 2),
    (0.5, 1, 1),
    (0.25, 0, 1),
    (0.75, 1, 2),
    (0.3, 0, 1),
    (0.49999999999999994, 0, 1),
    (0.5000000000000001, 1, 2),
];
pub const T2: [(f64, usize, usize); 5] = [(0.0, 0, 0), (1.0, 1, 1), (0.5, 0, 1), (0.9999999999999999, 0, 1), (0.2, 0, 1)];
pub const T4: [(f64, usize, usize); 6] = [(0.0, 0, 0), (1.0, 3, 3), (0.5, 1, 2), (0.6666666666666666, 2, 2), (0.3333333333333333, 1, 1), (0.9, 2, 3)];

//@ prop=C01 tier=quick mem=2 timeout=900 inst="the q tables used by the pipeline harnesses vs lower_index / higher_index" bounds="19 table rows, concrete"
#[kani::proof]
#[kani::unwind(10)]
fn c01_table_matches_kernel() {
    let mut k = 0;
    while k < 8 {
        assert!(vh::verif_lower_index(n64(T3[k].0), 3) == T3[k].1 && vh::verif_higher_index(n64(T3[k].0), 3) == T3[k].2);
        k += 1;
    }
    let mut k = 0;
    while k < 5 {
        assert!(vh::verif_lower_index(n64(T2[k].0), 2) == T2[k].1 && vh::verif_higher_index(n64(T2[k].0), 2) == T2[k].2);
        k += 1;
    }
    let mut k = 0;
    while k < 6 {
        assert!(vh::verif_lower_index(n64(T4[k].0), 4) == T4[k].1 && vh::verif_higher_index(n64(T4[k].0), 4) == T4[k].2);
        k += 1;
    }
    kani::cover!(true, "W: reached");
}

/// 2-D pipeline: `quantiles_axis_mut` on an R x C view in a given layout along `axis`, with a
/// concrete request list `qs`; T is the element type built from i8 payloads.
pub fn pipeline_2d<T, I, const R: usize, const C: usize, const RC: usize, const M: usize>(
    interp: &I,
    layout: u8,
    axis: usize,
    qs: [(f64, usize, usize); M],
    mk: fn(i8) -> T,
    fill: T,
) where
    T: Copy + Ord + kani::Arbitrary,
    I: Interpolate<T>,
{
    let pay: [i8; RC] = kani::any();
    let mut vals = [fill; RC];
    let mut k = 0;
    while k < RC {
        vals[k] = mk(pay[k]);
        k += 1;
    }
    let mut p = parent2(&vals, R, C, layout, fill);
    let before = p.clone();
    let mut qv = Vec::with_capacity(M + 1);
    let mut j = 0;
    while j < M {
        qv.push(n64(qs[j].0));
        j += 1;
    }
    let qarr = Array1::from(qv);
    arm_bulk_contract();
    let res = {
        let mut v = view2_mut(&mut p, layout);
        v.quantiles_axis_mut(Axis(axis), &qarr, interp).unwrap()
    };
    let lanes = if axis == 0 { C } else { R };
    let l = if axis == 0 { R } else { C };
    assert!(res.shape()[axis] == M && res.shape()[1 - axis] == lanes, "result: the axis is resized to the number of requested quantiles");
    let mut lane = 0;
    while lane < lanes {
        let mut s = [fill; RC];
        let mut t = 0;
        while t < l {
            s[t] = if axis == 0 { vals[t * C + lane] } else { vals[lane * C + t] };
            t += 1;
        }
        sort_small(&mut s, l);
        let mut j = 0;
        while j < M {
            let q = n64(qs[j].0);
            let lower = if I::needs_lower(q, l) { Some(s[qs[j].1]) } else { None };
            let higher = if I::needs_higher(q, l) { Some(s[qs[j].2]) } else { None };
            let expect = I::interpolate(lower, higher, q, l);
            let got = if axis == 0 { res[[j, lane]] } else { res[[lane, j]] };
            assert!(got == expect, "entry (request j, lane) == strategy applied to the sorted lane at floor/ceil((N-1) q_j)");
            j += 1;
        }
        // C03: the lane still holds the same multiset
        let w: T = mk(kani::any());
        let mut c0 = 0usize;
        let mut c1 = 0usize;
        let mut t = 0;
        while t < l {
            let (i, jj) = if axis == 0 { (t, lane) } else { (lane, t) };
            if vals[i * C + jj] == w {
                c0 += 1;
            }
            if at2(&p, R, C, layout, i, jj) == w {
                c1 += 1;
            }
            t += 1;
        }
        assert!(c0 == c1, "no element leaves its lane");
        lane += 1;
    }
    // C03: cells of the parent that are not part of the view are untouched
    if layout == 2 {
        let mut a = 0;
        while a < 2 * R + 1 {
            let mut b = 0;
            while b < 2 * C + 1 {
                if !in_view2(layout, a, b) {
                    assert!(p[[a, b]] == before[[a, b]], "parent cell outside the view untouched");
                }
                b += 1;
            }
            a += 1;
        }
    }
    kani::cover!(vals[0] != vals[RC - 1] && vals[0] > vals[1], "W: unsorted, non-constant data");
}

fn id8(x: i8) -> i8 {
    x
}
fn w16(x: i8) -> i16 {
    x as i16
}

macro_rules! c01_pipe {
    ($name:ident, $t:ty, $mk:expr, $fill:expr, $interp:expr, $r:expr, $c:expr, $rc:expr, $m:expr, $layout:expr, $axis:expr, $qs:expr, $unw:expr) => {
        #[kani::proof]
        #[kani::unwind($unw)]
        fn $name() {
            pipeline_2d::<$t, _, $r, $c, $rc, $m>(&$interp, $layout, $axis, $qs, $mk, $fill);
        }
    };
}

// Quick-tier pipelines: 2 lanes of 2 elements (the 3-element lanes below take 9-13 min each and
// live in the thorough tier). q table for N = 2: 0.5, 0.2 and 1-ulp all select (0, 1).
//@ prop=C01,C03,C20:thorough tier=quick mem=6 timeout=1500 flags=modelmap uses=cut inst="quantiles_axis_mut(Axis(1), [0.5, 1.0], Lower) on ArrayViewMut2<i8> 2x2 F-order (contiguous, quantile axis = last axis, lanes NOT contiguous)" bounds="all lane contents; 2 lanes of 2; unwind 8"
c01_pipe!(c01_pipe_lower_2x2_f_ax1, i8, id8, 0i8, Lower, 2, 2, 4, 2, 1, 1, [T2[2], T2[1]], 8);
//@ prop=C01,C03:thorough,C20:thorough tier=quick mem=6 timeout=1500 flags=modelmap uses=cut inst="quantiles_axis_mut(Axis(1), [1-ulp, 0.0], Nearest) on ArrayViewMut2<i8> 2x2 C-order rows reversed (contiguous, lane stride +1)" bounds="all lane contents; unwind 8"
c01_pipe!(c01_pipe_nearest_2x2_crowrev_ax1, i8, id8, 0i8, Nearest, 2, 2, 4, 2, 5, 1, [T2[3], T2[0]], 8);
//@ prop=C01,C03:thorough,C20:thorough tier=quick mem=6 timeout=1500 flags=modelmap uses=cut inst="quantiles_axis_mut(Axis(0), [0.5, 0.5], Midpoint) on ArrayViewMut2<i16> 2x2 C-order" bounds="i8-range payloads; a repeated request; unwind 8"
c01_pipe!(c01_pipe_midpoint_2x2_c_ax0, i16, w16, 0i16, Midpoint, 2, 2, 4, 2, 0, 0, [T2[2], T2[2]], 8);
//@ prop=C01:thorough,C03,C20:thorough tier=quick mem=6 timeout=1500 flags=modelmap uses=cut inst="quantiles_axis_mut(Axis(1), [0.2, 0.5], Higher) on ArrayViewMut2<i8> 2x2 stepped view of a 5x5 parent (guard cells)" bounds="all lane contents; unwind 8"
c01_pipe!(c01_pipe_higher_2x2_step_ax1, i8, id8, 0i8, Higher, 2, 2, 4, 2, 2, 1, [T2[4], T2[2]], 8);
//@ prop=C01,C03,C20 tier=thorough mem=6 timeout=3000 flags=modelmap uses=cut inst="quantiles_axis_mut(Axis(0), [0.2, 1.0], Linear) on ArrayViewMut2<i16> 2x2 both axes reversed" bounds="i8-range payloads; unwind 8"
c01_pipe!(c01_pipe_linear_2x2_rev_ax0, i16, w16, 0i16, Linear, 2, 2, 4, 2, 3, 0, [T2[4], T2[1]], 8);

//@ prop=C01,C03,C20 tier=thorough mem=8 timeout=3000 flags=modelmap uses=cut inst="quantiles_axis_mut(Axis(0), [0.75, 0.25, 0.75], Lower) on ArrayViewMut2<i8> 3x2 F-order" bounds="all lane contents; 2 lanes of 3; 3 requests (repeat, non-monotone); unwind 10"
c01_pipe!(c01_pipe_lower_3x2_f_ax0, i8, id8, 0i8, Lower, 3, 2, 6, 3, 1, 0, [T3[4], T3[3], T3[4]], 10);
//@ prop=C01,C03,C20 tier=thorough mem=8 timeout=3000 flags=modelmap uses=cut inst="quantiles_axis_mut(Axis(1), [0.5-ulp, 0.5+ulp], Higher) on ArrayViewMut2<i8> 2x3 stepped view of a 5x7 parent" bounds="all lane contents; 2 non-contiguous lanes of 3; unwind 10"
c01_pipe!(c01_pipe_higher_2x3_step_ax1, i8, id8, 0i8, Higher, 2, 3, 6, 2, 2, 1, [T3[6], T3[7]], 10);
//@ prop=C01,C03,C20 tier=thorough mem=8 timeout=3000 flags=modelmap uses=cut inst="quantiles_axis_mut(Axis(1), [0.25, 0.3, 1.0], Nearest) on ArrayViewMut2<i8> 2x3 both axes reversed" bounds="all lane contents; unwind 10"
c01_pipe!(c01_pipe_nearest_2x3_rev_ax1, i8, id8, 0i8, Nearest, 2, 3, 6, 3, 3, 1, [T3[3], T3[5], T3[1]], 10);
//@ prop=C01,C03,C20 tier=thorough mem=8 timeout=3000 flags=modelmap uses=cut inst="quantiles_axis_mut(Axis(0), [0.25, 0.5], Midpoint) on ArrayViewMut2<i16> 3x2 C-order" bounds="i8-range payloads; unwind 10"
c01_pipe!(c01_pipe_midpoint_3x2_c_ax0, i16, w16, 0i16, Midpoint, 3, 2, 6, 2, 0, 0, [T3[3], T3[2]], 10);
//@ prop=C01,C03,C20 tier=thorough mem=8 timeout=3000 flags=modelmap uses=cut inst="quantiles_axis_mut(Axis(0), [0.3, 0.0], Linear) on ArrayViewMut2<i16> 3x2 F-order rows reversed" bounds="i8-range payloads; unwind 10"
c01_pipe!(c01_pipe_linear_3x2_frev_ax0, i16, w16, 0i16, Linear, 3, 2, 6, 2, 4, 0, [T3[5], T3[0]], 10);
//@ prop=C01,C03,C20 tier=thorough mem=8 timeout=3000 flags=modelmap uses=cut inst="quantiles_axis_mut(Axis(1), [0.75, 0.0], Nearest) on ArrayViewMut2<i8> 2x3 C-order rows reversed (contiguous, lane stride +1)" bounds="all lane contents; unwind 10"
c01_pipe!(c01_pipe_nearest_2x3_crowrev_ax1, i8, id8, 0i8, Nearest, 2, 3, 6, 2, 5, 1, [T3[4], T3[0]], 10);
//@ prop=C01,C03,C20 tier=thorough mem=8 timeout=3000 flags=modelmap uses=cut inst="quantiles_axis_mut(Axis(1), [0.5, 1.0], Lower) on ArrayViewMut2<i8> 2x3 F-order (contiguous, quantile axis = last axis, lanes NOT contiguous)" bounds="all lane contents; unwind 10"
c01_pipe!(c01_pipe_lower_2x3_f_ax1, i8, id8, 0i8, Lower, 2, 3, 6, 2, 1, 1, [T3[2], T3[1]], 10);
//@ prop=C01 tier=quick mem=6 timeout=3000 flags=modelmap uses=cut inst="quantiles_axis_mut with an EMPTY request list on ArrayViewMut2<i8> 2x2" bounds="0 requests; unwind 10"
c01_pipe!(c01_pipe_lower_2x2_noreq, i8, id8, 0i8, Lower, 2, 2, 4, 0, 0, 1, [], 10);

//@ prop=C01,C03,C20 tier=thorough mem=10 timeout=7200 flags=modelmap uses=cut inst="quantiles_axis_mut(Axis(1), [0.5, 0.9, 0.0], Midpoint) on ArrayViewMut2<i16> 2x4 F-order" bounds="lanes of 4; unwind 12"
c01_pipe!(c01_pipe_midpoint_2x4_f_ax1, i16, w16, 0i16, Midpoint, 2, 4, 8, 3, 1, 1, [T4[2], T4[5], T4[0]], 12);
//@ prop=C01,C03,C20 tier=thorough mem=10 timeout=7200 flags=modelmap uses=cut inst="quantiles_axis_mut(Axis(0), [2/3, 1/3], Linear) on ArrayViewMut2<i16> 4x2 stepped" bounds="lanes of 4; unwind 12"
c01_pipe!(c01_pipe_linear_4x2_step_ax0, i16, w16, 0i16, Linear, 4, 2, 8, 2, 2, 0, [T4[3], T4[4]], 12);
//@ prop=C01,C03,C20 tier=thorough mem=8 timeout=5400 flags=modelmap uses=cut inst="quantiles_axis_mut(Axis(0), [1-ulp, 0.2, 0.5], Nearest) on ArrayViewMut2<i8> 2x3 C-order (lanes of 2)" bounds="lanes of 2; unwind 10"
c01_pipe!(c01_pipe_nearest_2x3_c_ax0, i8, id8, 0i8, Nearest, 2, 3, 6, 3, 0, 0, [T2[3], T2[4], T2[2]], 10);
//@ prop=C01,C03,C20 tier=thorough mem=8 timeout=5400 flags=modelmap uses=cut inst="quantiles_axis_mut(Axis(1), all 8 table rows, Lower) on ArrayViewMut2<i8> 1x3" bounds="one lane of 3, 8 requests; unwind 12"
c01_pipe!(c01_pipe_lower_1x3_all_rows, i8, id8, 0i8, Lower, 1, 3, 3, 8, 0, 1, T3, 12);
//@ prop=C01,C03,C20 tier=thorough mem=8 timeout=5400 flags=modelmap uses=cut inst="quantiles_axis_mut(Axis(1), all 8 table rows, Higher) on ArrayViewMut2<i8> 1x3 reversed" bounds="one lane of 3, 8 requests; unwind 12"
c01_pipe!(c01_pipe_higher_1x3_all_rows, i8, id8, 0i8, Higher, 1, 3, 3, 8, 3, 1, T3, 12);

/// 1-D entry points: quantile_mut / quantiles_mut, and the single-q axis form (axis removed).
//@ prop=C01,C18 tier=thorough mem=6 timeout=3000 flags=modelmap uses=cut inst="quantile_mut / quantiles_mut / quantile_axis_mut on Array1<i16> len 3 and a 3x1 column; Midpoint, q = 0.75" bounds="i8-range payloads; unwind 10"
#[kani::proof]
#[kani::unwind(10)]
fn c01_entry_points_1d() {
    let pay: [i8; 3] = kani::any();
    let vals = [pay[0] as i16, pay[1] as i16, pay[2] as i16];
    let mut s = vals;
    sort_small(&mut s, 3);
    let q = n64(0.75);
    let expect = <Midpoint as Interpolate<i16>>::interpolate(Some(s[1]), Some(s[2]), q, 3);
    arm_bulk_contract();
    let mut a = Array1::from(vals.to_vec());
    assert!(a.quantile_mut(q, &Midpoint) == Ok(expect), "quantile_mut");
    let mut b = Array1::from(vals.to_vec());
    let rs = b.quantiles_mut(&array![q, n64(0.0)], &Midpoint).unwrap();
    assert!(rs.len() == 2 && rs[0] == expect && rs[1] == s[0], "quantiles_mut, request order");
    let mut c = Array2::from_shape_vec((3, 1), vals.to_vec()).unwrap();
    let r1 = c.quantile_axis_mut(Axis(0), q, &Midpoint).unwrap();
    assert!(r1.ndim() == 1 && r1.len() == 1 && r1[0] == expect, "quantile_axis_mut removes the axis");
    let mut d = Array1::from(vals.to_vec());
    let r0 = d.quantile_axis_mut(Axis(0), q, &Midpoint).unwrap();
    assert!(r0.ndim() == 0 && r0.into_scalar() == expect, "1-D input gives a 0-D result");
    kani::cover!(expect != s[1] && expect != s[2], "W: midpoint strictly between two order statistics");
}
