//! C13 — edges are strictly sorted and bin lookup is left-closed, right-open.
use crate::common::*;
use ndarray::prelude::*;
use ndarray_stats::histogram::{Bins, Edges, Grid};

/// Edges built from E symbolic u8 values (every weak-order pattern of E elements), via Vec or
/// via Array1; every accessor checked against first principles for an arbitrary probe value.
fn edges_check<const E: usize>(via_array: bool) {
    edges_check_mode::<E>(if via_array { 1 } else { 0 });
}

/// mode 0: from Vec; 1: from a fresh Array1; 2: from an OWNED Array1 that was sliced in place
/// (non-zero offset and shorter length inside a larger allocation); 3: from an owned reversed array.
fn edges_check_mode<const E: usize>(mode: u8) {
    let input: [u8; E] = kani::any();
    let edges = match mode {
        0 => Edges::from(input.to_vec()),
        1 => Edges::from(Array1::from(input.to_vec())),
        2 => {
            let pad: [u8; 2] = kani::any();
            let mut v = Vec::with_capacity(E + 2);
            v.push(pad[0]);
            let mut i = 0;
            while i < E {
                v.push(input[i]);
                i += 1;
            }
            v.push(pad[1]);
            Edges::from(Array1::from(v).slice_move(s![1..E + 1]))
        }
        _ => {
            let mut v = Vec::with_capacity(E);
            let mut i = 0;
            while i < E {
                v.push(input[E - 1 - i]);
                i += 1;
            }
            Edges::from(Array1::from(v).slice_move(s![..;-1]))
        }
    };
    let n = edges.len();
    assert!(n <= E);
    assert!((n == 0) == (E == 0));
    assert!(edges.is_empty() == (n == 0));
    // strictly increasing
    let mut i = 0;
    while i + 1 < E {
        if i + 1 < n {
            assert!(edges[i] < edges[i + 1], "edges strictly increasing");
        }
        i += 1;
    }
    // exactly the distinct input values: w is an edge <=> w is an input (universally quantified w)
    let w: u8 = kani::any();
    let mut is_input = false;
    let mut i = 0;
    while i < E {
        if input[i] == w {
            is_input = true;
        }
        i += 1;
    }
    let mut is_edge = false;
    let mut i = 0;
    while i < E {
        if i < n && edges[i] == w {
            is_edge = true;
        }
        i += 1;
    }
    assert!(is_input == is_edge, "edges are exactly the distinct inputs");
    // the array view and the iterator agree with indexing
    let view = edges.as_array_view();
    assert!(view.len() == n);
    let mut i = 0;
    for e in edges.iter() {
        assert!(*e == edges[i] && view[i] == edges[i]);
        i += 1;
    }
    assert!(i == n);
    // lookup: left-closed, right-open
    let v: u8 = kani::any();
    let r = edges.indices_of(&v);
    let mut expect: Option<(usize, usize)> = None;
    let mut i = 0;
    while i + 1 < E {
        if i + 1 < n && edges[i] <= v && v < edges[i + 1] {
            expect = Some((i, i + 1));
        }
        i += 1;
    }
    assert!(r == expect, "indices_of(v) == Some((i,i+1)) iff e_i <= v < e_(i+1)");
    // bins
    let bins = Bins::new(edges.clone());
    let nb = if n == 0 { 0 } else { n - 1 };
    assert!(bins.len() == nb, "number of bins is max(#edges - 1, 0)");
    assert!(bins.is_empty() == (nb == 0));
    let io = bins.index_of(&v);
    let ro = bins.range_of(&v);
    match expect {
        None => assert!(io.is_none() && ro.is_none()),
        Some((l, rr)) => {
            assert!(io == Some(l));
            let range = ro.unwrap();
            assert!(range.start == edges[l] && range.end == edges[rr]);
            assert!(range == bins.index(l), "range_of agrees with index(index_of)");
            assert!(range.start <= v && v < range.end);
        }
    }
    let k: usize = kani::any();
    if k < nb {
        let rg = bins.index(k);
        assert!(rg.start == edges[k] && rg.end == edges[k + 1]);
        assert!(bins.index_of(&rg.start) == Some(k), "left edge belongs to its bin");
        assert!(bins.range_of(&rg.start) == Some(rg.clone()));
    }
    kani::cover!(E == 0 || n == E, "W: all inputs distinct");
    kani::cover!(E < 2 || n == 1, "W: all inputs equal");
    kani::cover!(E < 3 || (expect.is_some() && expect.unwrap().0 > 0), "W: probe falls in a later bin");
    kani::cover!(E < 2 || (n >= 2 && v == edges[n - 1]), "W: probe on the last edge");
}

//@ prop=C13,C16:thorough tier=quick mem=2 timeout=900 inst="Edges<u8>::from(Vec) of 4 values; Bins<u8>" bounds="4 symbolic u8 inputs (all weak-order patterns), any probe; unwind 8"
#[kani::proof]
#[kani::unwind(8)]
fn c13_edges_vec_e4() {
    edges_check::<4>(false);
}
//@ prop=C13,C16:thorough tier=quick mem=2 timeout=900 inst="Edges<u8>::from(Vec) of 3 values" bounds="3 symbolic inputs; unwind 8"
#[kani::proof]
#[kani::unwind(8)]
fn c13_edges_vec_e3() {
    edges_check::<3>(false);
}
//@ prop=C13 tier=quick mem=2 timeout=900 inst="Edges<u8>::from(Vec) of 2 values" bounds="2 symbolic inputs; unwind 8"
#[kani::proof]
#[kani::unwind(8)]
fn c13_edges_vec_e2() {
    edges_check::<2>(false);
}
//@ prop=C13 tier=quick mem=2 timeout=900 inst="Edges<u8>::from(Vec) of 1 value" bounds="1 symbolic input (fewer than two edges: no bins); unwind 8"
#[kani::proof]
#[kani::unwind(8)]
fn c13_edges_vec_e1() {
    edges_check::<1>(false);
}
//@ prop=C13 tier=quick mem=2 timeout=900 inst="Edges<u8>::from(empty Vec)" bounds="no edges; unwind 8"
#[kani::proof]
#[kani::unwind(8)]
fn c13_edges_vec_e0() {
    edges_check::<0>(false);
}
//@ prop=C13 tier=quick mem=2 timeout=900 inst="Edges<u8>::from(Array1) of 3 values" bounds="3 symbolic inputs; unwind 8"
#[kani::proof]
#[kani::unwind(8)]
fn c13_edges_arr_e3() {
    edges_check::<3>(true);
}
//@ prop=C13 tier=quick mem=2 timeout=900 inst="Edges<u8>::from(owned Array1 sliced in place: offset 1 inside a 5-cell allocation) of 3 values" bounds="3 symbolic inputs + 2 symbolic hidden cells; unwind 8"
#[kani::proof]
#[kani::unwind(8)]
fn c13_edges_arr_sliced_e3() {
    edges_check_mode::<3>(2);
}
// (not registered: timed out at 30 min when tried) prop=C13 tier=thorough mem=2 timeout=1800 inst="Edges<u8>::from(owned Array1 reversed in place) of 3 values" bounds="3 symbolic inputs; unwind 8"
#[allow(dead_code)]
// #[kani::unwind(8)]
fn c13_edges_arr_reversed_e3() {
    edges_check_mode::<3>(3);
}
//@ prop=C13 tier=thorough mem=4 timeout=3600 inst="Edges<u8>::from(Vec) of 5 values" bounds="5 symbolic inputs; unwind 9"
#[kani::proof]
#[kani::unwind(9)]
fn c13_edges_vec_e5() {
    edges_check::<5>(false);
}
//@ prop=C13 tier=thorough mem=4 timeout=3600 inst="Edges<u8>::from(Array1) of 4 values" bounds="4 symbolic inputs; unwind 8"
#[kani::proof]
#[kani::unwind(8)]
fn c13_edges_arr_e4() {
    edges_check::<4>(true);
}

/// Grid over two axes: shape / index_of / index agree with the per-axis Bins.
fn grid_check<const E0: usize, const E1: usize>() {
    let e0: [u8; E0] = kani::any();
    let e1: [u8; E1] = kani::any();
    let p: [u8; 2] = kani::any();
    let b0 = Bins::new(Edges::from(e0.to_vec()));
    let b1 = Bins::new(Edges::from(e1.to_vec()));
    let (n0, n1) = (b0.len(), b1.len());
    let i0 = b0.index_of(&p[0]);
    let i1 = b1.index_of(&p[1]);
    let r0 = match i0 {
        Some(i) => Some(b0.index(i)),
        None => None,
    };
    let r1 = match i1 {
        Some(i) => Some(b1.index(i)),
        None => None,
    };
    let grid = Grid::from(vec![b0, b1]);
    assert!(grid.ndim() == 2);
    let shape = grid.shape();
    assert!(shape.len() == 2 && shape[0] == n0 && shape[1] == n1, "shape lists the bin count of each axis in order");
    let r = grid.index_of(&aview1(&p));
    match &r {
        None => assert!(i0.is_none() || i1.is_none(), "None iff some coordinate is outside its axis"),
        Some(ix) => {
            assert!(ix.len() == 2);
            assert!(Some(ix[0]) == i0 && Some(ix[1]) == i1, "coordinate j is looked up on axis j");
            let ranges = grid.index(ix);
            assert!(ranges.len() == 2);
            assert!(Some(ranges[0].clone()) == r0 && Some(ranges[1].clone()) == r1, "Grid::index agrees with Bins::index per axis");
            assert!(ranges[0].start <= p[0] && p[0] < ranges[0].end);
            assert!(ranges[1].start <= p[1] && p[1] < ranges[1].end);
        }
    }
    kani::cover!(E0 < 3 || (r.is_some() && i0 == Some(1) && i1 == Some(0)), "W: point in cell (1,0)");
    kani::cover!(r.is_some(), "W: point inside the grid");
    kani::cover!(i0.is_some() && i1.is_none(), "W: second coordinate outside");
}

//@ prop=C13 tier=quick mem=4 timeout=1800 inst="Grid<u8> with 2 axes (2 and 2 symbolic edges)" bounds="axes of 0..=1 bins, any point; unwind 8"
#[kani::proof]
#[kani::unwind(8)]
fn c13_grid_e2_e2() {
    grid_check::<2, 2>();
}
//@ prop=C13,C16:thorough tier=thorough mem=4 timeout=3600 inst="Grid<u8> with 2 axes (3 and 2 symbolic edges)" bounds="axes of 0..=2 and 0..=1 bins, any point; unwind 8"
#[kani::proof]
#[kani::unwind(8)]
fn c13_grid_e3_e2() {
    grid_check::<3, 2>();
}
// (not registered: not verified to finish within the session's budget on this machine) prop=C13 tier=thorough mem=6 timeout=3600 inst="Grid<u8> with 2 axes (3 and 3 symbolic edges)" bounds="axes of 0..=2 bins, any point; unwind 8"
#[allow(dead_code)]
// #[kani::unwind(8)]
fn c13_grid_e3_e3() {
    grid_check::<3, 3>();
}
