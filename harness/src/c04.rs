//! C04 — NaN-stripped views are sound for every stride and element type.
//! (Also carries C03's clause for NaN removal: lane multiset preserved, guard cells untouched.)
use crate::common::*;
use ndarray::prelude::*;
use ndarray_stats::MaybeNan;
use noisy_float::types::{n32, n64, N32, N64};

/// Harness-side view of an element type: a symbolic generator, a bit-exact key for multiset
/// comparison (NaN != NaN, so floats are compared by bits), and "is missing".
pub trait Elem: Copy + MaybeNan {
    fn gen() -> Self;
    fn key(&self) -> u128;
    fn missing(&self) -> bool;
}
impl Elem for f64 {
    fn gen() -> Self { kani::any() }
    fn key(&self) -> u128 { self.to_bits() as u128 }
    fn missing(&self) -> bool { *self != *self }
}
impl Elem for f32 {
    fn gen() -> Self { kani::any() }
    fn key(&self) -> u128 { self.to_bits() as u128 }
    fn missing(&self) -> bool { *self != *self }
}
macro_rules! elem_opt_int {
    ($($t:ty),*) => {$(
        impl Elem for Option<$t> {
            fn gen() -> Self { kani::any() }
            fn key(&self) -> u128 { match self { None => 1u128 << 127, Some(v) => (*v as u128) & ((1u128 << 127) - 1) } }
            fn missing(&self) -> bool { match self { None => true, Some(_) => false } }
        }
    )*};
}
elem_opt_int!(u8, u16, u32, u64, i8, i16, i32, i64);
impl Elem for Option<u128> {
    fn gen() -> Self { kani::any() }
    fn key(&self) -> u128 { match self { None => 0, Some(v) => (*v >> 1) | (1u128 << 127) } }
    fn missing(&self) -> bool { self.is_none() }
}
impl Elem for Option<i128> {
    fn gen() -> Self { kani::any() }
    fn key(&self) -> u128 { match self { None => 0, Some(v) => ((*v as u128) >> 1) | (1u128 << 127) } }
    fn missing(&self) -> bool { self.is_none() }
}
impl Elem for Option<N64> {
    fn gen() -> Self {
        if kani::any() {
            let x: f64 = kani::any();
            kani::assume(x == x);
            Some(n64(x))
        } else {
            None
        }
    }
    fn key(&self) -> u128 { match self { None => 1u128 << 127, Some(v) => v.raw().to_bits() as u128 } }
    fn missing(&self) -> bool { self.is_none() }
}
impl Elem for Option<N32> {
    fn gen() -> Self {
        if kani::any() {
            let x: f32 = kani::any();
            kani::assume(x == x);
            Some(n32(x))
        } else {
            None
        }
    }
    fn key(&self) -> u128 { match self { None => 1u128 << 127, Some(v) => v.raw().to_bits() as u128 } }
    fn missing(&self) -> bool { self.is_none() }
}

/// remove_nan_mut on a view of concrete length LEN carved (layout) from a B-cell buffer.
/// Two consecutive calls: the second must return the same cells in the same order.
pub fn remove_nan_check<T: Elem, const B: usize, const LEN: usize>(layout: u8) {
    let mut buf: [T; B] = [T::gen(); B];
    let mut c = 1;
    while c < B {
        buf[c] = T::gen();
        c += 1;
    }
    let orig = buf;
    let base = buf.as_ptr() as usize;
    let sz = core::mem::size_of::<T>();
    let mut expect_cnt = 0usize;
    let mut t = 0;
    while t < LEN {
        if !orig[pos1(layout, LEN, t)].missing() {
            expect_cnt += 1;
        }
        t += 1;
    }
    // first call: record length and the addresses of the returned elements
    let mut cells1 = [usize::MAX; LEN];
    let len1;
    {
        let v = carve1(&mut buf, layout, LEN);
        let r = T::remove_nan_mut(v);
        len1 = r.len();
        let mut k = 0;
        while k < LEN {
            if k < len1 {
                let addr = &r[k] as *const T::NotNan as usize;
                assert!(addr >= base && (addr - base) % sz == 0 && (addr - base) / sz < B, "returned element lies inside the parent buffer");
                cells1[k] = (addr - base) / sz;
            }
            k += 1;
        }
    }
    assert!(len1 == expect_cnt, "length is the number of non-missing elements");
    let after1 = buf;
    let mut k = 0;
    while k < LEN {
        if k < len1 {
            assert!(in_view1(layout, LEN, cells1[k]), "returned element aliases a cell of the input view");
            assert!(!after1[cells1[k]].missing(), "no missing value behind a not-NaN reference");
            let mut j = 0;
            while j < k {
                assert!(cells1[j] != cells1[k], "returned elements are pairwise distinct cells");
                j += 1;
            }
        }
        k += 1;
    }
    // multiset: (returned cells) == (non-missing inputs); whole lane is a permutation; guards untouched
    let w = T::gen();
    let wk = w.key();
    let mut c_in = 0usize;
    let mut c_out = 0usize;
    let mut c_lane0 = 0usize;
    let mut c_lane1 = 0usize;
    let mut c = 0;
    while c < B {
        if in_view1(layout, LEN, c) {
            if orig[c].key() == wk {
                c_lane0 += 1;
                if !orig[c].missing() {
                    c_in += 1;
                }
            }
            if after1[c].key() == wk {
                c_lane1 += 1;
            }
        } else {
            assert!(after1[c].key() == orig[c].key(), "cell outside the view untouched");
        }
        c += 1;
    }
    let mut k = 0;
    while k < LEN {
        if k < len1 && after1[cells1[k]].key() == wk {
            c_out += 1;
        }
        k += 1;
    }
    assert!(w.missing() || c_in == c_out, "returned elements are exactly the non-missing inputs (multiset)");
    assert!(c_lane0 == c_lane1, "the lane as a whole is only permuted");
    // second call on the same view: deterministic and idempotent
    {
        let v = carve1(&mut buf, layout, LEN);
        let r = T::remove_nan_mut(v);
        assert!(r.len() == len1, "idempotent: same length");
        let mut k = 0;
        while k < LEN {
            if k < len1 {
                let addr = &r[k] as *const T::NotNan as usize;
                assert!((addr - base) / sz == cells1[k], "idempotent: same cells in the same order");
            }
            k += 1;
        }
    }
    let mut c = 0;
    while c < B {
        assert!(buf[c].key() == after1[c].key(), "idempotent: second call moves nothing");
        c += 1;
    }
    kani::cover!(len1 == LEN, "W: nothing missing");
    kani::cover!(len1 == 0, "W: everything missing");
    kani::cover!(LEN < 3 || (len1 == LEN - 1 && orig[pos1(layout, LEN, 0)].missing()), "W: only the first element missing");
}

macro_rules! c04 {
    ($name:ident, $t:ty, $b:expr, $len:expr, $layout:expr, $unw:expr) => {
        #[kani::proof]
        #[kani::unwind($unw)]
        fn $name() {
            remove_nan_check::<$t, $b, $len>($layout);
        }
    };
}

//@ prop=C04,C03 tier=quick mem=3 timeout=1200 inst="f64::remove_nan_mut, stride 2 at offset 1 (9-cell buffer)" bounds="len 4, every bit pattern / NaN placement; unwind 10"
c04!(c04_f64_step2_l4, f64, 9, 4, 1, 10);
//@ prop=C04,C03:thorough tier=quick mem=3 timeout=1200 inst="f32::remove_nan_mut, reversed stride 2 (9-cell buffer)" bounds="len 4; unwind 10"
c04!(c04_f32_revstep2_l4, f32, 9, 4, 4, 10);
//@ prop=C04,C03 tier=quick mem=3 timeout=1200 inst="Option<i8>::remove_nan_mut, reversed stride 2 (9-cell buffer)" bounds="len 4, every None placement; unwind 10"
c04!(c04_opt_i8_revstep2_l4, Option<i8>, 9, 4, 4, 10);
//@ prop=C04,C03:thorough tier=quick mem=3 timeout=1200 inst="Option<i32>::remove_nan_mut, stride 2 at offset 1 (9-cell buffer)" bounds="len 4; unwind 10"
c04!(c04_opt_i32_step2_l4, Option<i32>, 9, 4, 1, 10);
//@ prop=C04,C03:thorough tier=quick mem=3 timeout=1200 inst="Option<i8>::remove_nan_mut, reversed unit stride" bounds="len 3; unwind 6"
c04!(c04_opt_i8_rev_l3, Option<i8>, 3, 3, 3, 6);
//@ prop=C04,C03:thorough tier=quick mem=3 timeout=1200 inst="Option<u16>::remove_nan_mut, stride 3 at offset 2 (12-cell buffer)" bounds="len 3; unwind 13"
c04!(c04_opt_u16_step3_l3, Option<u16>, 12, 3, 2, 13);
//@ prop=C04,C03:thorough tier=quick mem=3 timeout=1200 inst="Option<N64>::remove_nan_mut, reversed stride 2 (7-cell buffer)" bounds="len 3; unwind 8"
c04!(c04_opt_n64_revstep2_l3, Option<N64>, 7, 3, 4, 8);
//@ prop=C04,C03:thorough tier=quick mem=2 timeout=900 inst="Option<i8>::remove_nan_mut, stride 2, single element" bounds="len 1; unwind 5"
c04!(c04_opt_i8_step2_l1, Option<i8>, 3, 1, 1, 5);
//@ prop=C04,C03:thorough tier=quick mem=2 timeout=900 inst="f64::remove_nan_mut on an empty view" bounds="len 0; unwind 5"
c04!(c04_f64_unit_l0, f64, 3, 0, 0, 5);
//@ prop=C04,C03:thorough tier=quick mem=3 timeout=1200 inst="f64::remove_nan_mut, unit stride" bounds="len 4; unwind 6"
c04!(c04_f64_unit_l4, f64, 4, 4, 0, 6);

// thorough: the remaining MaybeNan impls and more geometries
//@ prop=C04,C03 tier=thorough mem=3 timeout=2400 inst="Option<u8>, reversed stride 2" bounds="len 4; unwind 10"
c04!(c04_opt_u8_revstep2_l4, Option<u8>, 9, 4, 4, 10);
//@ prop=C04,C03 tier=thorough mem=3 timeout=2400 inst="Option<u32>, stride 2" bounds="len 4; unwind 10"
c04!(c04_opt_u32_step2_l4, Option<u32>, 9, 4, 1, 10);
//@ prop=C04,C03 tier=thorough mem=3 timeout=2400 inst="Option<u64>, reversed unit" bounds="len 4; unwind 6"
c04!(c04_opt_u64_rev_l4, Option<u64>, 4, 4, 3, 6);
//@ prop=C04,C03 tier=thorough mem=3 timeout=2400 inst="Option<u128>, stride 2" bounds="len 3; unwind 8"
c04!(c04_opt_u128_step2_l3, Option<u128>, 7, 3, 1, 8);
//@ prop=C04,C03 tier=thorough mem=3 timeout=2400 inst="Option<i16>, stride 3" bounds="len 3; unwind 13"
c04!(c04_opt_i16_step3_l3, Option<i16>, 12, 3, 2, 13);
//@ prop=C04,C03 tier=thorough mem=3 timeout=2400 inst="Option<i64>, reversed stride 2" bounds="len 4; unwind 10"
c04!(c04_opt_i64_revstep2_l4, Option<i64>, 9, 4, 4, 10);
//@ prop=C04,C03 tier=thorough mem=3 timeout=2400 inst="Option<i128>, reversed unit" bounds="len 3; unwind 6"
c04!(c04_opt_i128_rev_l3, Option<i128>, 3, 3, 3, 6);
//@ prop=C04,C03 tier=thorough mem=3 timeout=2400 inst="Option<N32>, stride 2" bounds="len 3; unwind 8"
c04!(c04_opt_n32_step2_l3, Option<N32>, 7, 3, 1, 8);
//@ prop=C04,C03 tier=thorough mem=3 timeout=2400 inst="f32, stride 3" bounds="len 3; unwind 13"
c04!(c04_f32_step3_l3, f32, 12, 3, 2, 13);
//@ prop=C04,C03 tier=thorough mem=4 timeout=3600 inst="f64, reversed stride 2, len 5 (11-cell buffer)" bounds="len 5; unwind 12"
c04!(c04_f64_revstep2_l5, f64, 11, 5, 4, 12);
//@ prop=C04,C03 tier=thorough mem=4 timeout=3600 inst="Option<i8>, stride 2, len 5 (11-cell buffer)" bounds="len 5; unwind 12"
c04!(c04_opt_i8_step2_l5, Option<i8>, 11, 5, 1, 12);
//@ prop=C04,C03 tier=thorough mem=3 timeout=2400 inst="Option<i32>, unit stride, len 2" bounds="len 2; unwind 5"
c04!(c04_opt_i32_unit_l2, Option<i32>, 2, 2, 0, 5);
