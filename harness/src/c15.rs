//! C15 — partition_mut places the pivot at its sorted rank.
use crate::common::*;
use ndarray::prelude::*;
use ndarray_stats::Sort1dExt;

/// One partition call on a view of symbolic length 1..=MAXLEN carved from a B-cell
/// buffer with the given layout; all contents and the pivot position symbolic.
fn partition_check<const B: usize>(layout: u8, maxlen: usize) {
    let mut buf: [u8; B] = kani::any();
    let orig = buf;
    let len: usize = kani::any();
    kani::assume(len >= 1 && len <= maxlen);
    let p: usize = kani::any();
    kani::assume(p < len);
    let pv = orig[pos1(layout, len, p)];
    let k;
    {
        let mut v = carve1(&mut buf, layout, len);
        k = v.partition_mut(p);
    }
    // k = number of elements strictly smaller than the pivot value
    let mut less = 0usize;
    let mut t = 0;
    while t < len {
        if orig[pos1(layout, len, t)] < pv {
            less += 1;
        }
        t += 1;
    }
    assert!(k == less, "returned index is the pivot's sorted rank");
    assert!(k < len);
    assert!(buf[pos1(layout, len, k)] == pv, "position k holds the pivot value");
    let mut t = 0;
    while t < len {
        let e = buf[pos1(layout, len, t)];
        if t < k {
            assert!(e < pv, "strictly smaller before k");
        }
        if t > k {
            assert!(e >= pv, "greater or equal after k");
        }
        t += 1;
    }
    // multiset preserved inside the view; nothing outside it modified
    let w: u8 = kani::any();
    let mut c0 = 0usize;
    let mut c1 = 0usize;
    let mut c = 0;
    while c < B {
        if in_view1(layout, len, c) {
            if orig[c] == w {
                c0 += 1;
            }
            if buf[c] == w {
                c1 += 1;
            }
        } else {
            assert!(buf[c] == orig[c], "cell outside the view untouched");
        }
        c += 1;
    }
    assert!(c0 == c1, "multiset of the lane preserved");
    kani::cover!(len == 1, "W: single-element array partitioned");
    kani::cover!(len == maxlen && k > 0 && k + 1 < len, "W: full-length array, pivot lands strictly inside");
}

//@ prop=C15,C03:thorough tier=quick mem=2 timeout=900 inst="ArrayViewMut1<u8>, unit stride" bounds="len 1..=4, all contents, all pivot positions; unwind 6"
#[kani::proof]
#[kani::unwind(6)]
fn c15_partition_unit_n4() {
    partition_check::<4>(0, 4);
}

//@ prop=C15,C03 tier=quick mem=2 timeout=900 inst="ArrayViewMut1<u8>, stride 2 at offset 1 in a 9-cell buffer" bounds="len 1..=4; unwind 10"
#[kani::proof]
#[kani::unwind(10)]
fn c15_partition_step2_n4() {
    partition_check::<9>(1, 4);
}

//@ prop=C15,C03:thorough tier=quick mem=2 timeout=900 inst="ArrayViewMut1<u8>, reversed (stride -1)" bounds="len 1..=4; unwind 6"
#[kani::proof]
#[kani::unwind(6)]
fn c15_partition_rev_n4() {
    partition_check::<4>(3, 4);
}

//@ prop=C15,C03 tier=thorough mem=4 timeout=3600 inst="ArrayViewMut1<u8>, unit stride" bounds="len 1..=5; unwind 7"
#[kani::proof]
#[kani::unwind(7)]
fn c15_partition_unit_n5() {
    partition_check::<5>(0, 5);
}

//@ prop=C15,C03 tier=thorough mem=4 timeout=3600 inst="ArrayViewMut1<u8>, reversed stride 2 in a 9-cell buffer" bounds="len 1..=4; unwind 10"
#[kani::proof]
#[kani::unwind(10)]
fn c15_partition_revstep2_n4() {
    partition_check::<9>(4, 4);
}

//@ prop=C15,C03 tier=thorough mem=4 timeout=3600 inst="ArrayViewMut1<u8>, stride 3 at offset 2 in a 12-cell buffer" bounds="len 1..=3; unwind 13"
#[kani::proof]
#[kani::unwind(13)]
fn c15_partition_step3_n3() {
    partition_check::<12>(2, 3);
}
