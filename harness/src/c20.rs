//! C20 — results do not depend on memory layout, strides or ownership.
//! Most per-module harnesses (c05, c06, c09, c10, c11, c14, c01) already compare against an oracle
//! that reads the data by LOGICAL index in several layouts and are tagged C20; this file adds
//! explicit differential harnesses: the same logical array in two representations must give
//! identical answers.
use crate::c02::{arm_bulk_contract, model_sort};
use crate::common::*;
use ndarray::prelude::*;
use ndarray::{ArcArray, CowArray};
use ndarray_stats::histogram::strategies::{BinsBuildingStrategy, Sqrt};
use ndarray_stats::histogram::GridBuilder;
use ndarray_stats::interpolate::{Midpoint, Nearest};
use ndarray_stats::{DeviationExt, MaybeNanExt, QuantileExt, SummaryStatisticsExt};
use noisy_float::types::n64;

/// quantiles_axis_mut on the canonical C-order array vs another representation of the same
/// logical array.
fn quantile_differential<const R: usize, const C: usize, const RC: usize>(layout: u8, axis: usize) {
    let pay: [i8; RC] = kani::any();
    let mut vals = [0i16; RC];
    let mut k = 0;
    while k < RC {
        vals[k] = pay[k] as i16;
        k += 1;
    }
    let qarr = array![n64(0.3), n64(1.0)];
    arm_bulk_contract();
    let mut canon = parent2(&vals, R, C, 0, 0i16);
    let r0 = canon.quantiles_axis_mut(Axis(axis), &qarr, &Midpoint).unwrap();
    let mut other = parent2(&vals, R, C, layout, 0i16);
    let r1 = {
        let mut v = view2_mut(&mut other, layout);
        v.quantiles_axis_mut(Axis(axis), &qarr, &Midpoint).unwrap()
    };
    assert!(r0.shape() == r1.shape());
    let mut i = 0;
    while i < r0.shape()[0] {
        let mut j = 0;
        while j < r0.shape()[1] {
            assert!(r0[[i, j]] == r1[[i, j]], "bit-identical quantiles for logically equal arrays");
            j += 1;
        }
        i += 1;
    }
    kani::cover!(pay[0] != pay[1] && pay[0] != pay[RC - 1], "W: non-constant data");
}

// (not registered: not verified to finish within the session's budget on this machine) prop=C20,C01 tier=thorough mem=10 timeout=5400 flags=modelmap uses=cut inst="quantiles_axis_mut(Axis(0), [0.3, 1.0], Midpoint) on Array2<i16> 2x2: C-order owned vs stepped view" bounds="i8-range payloads; unwind 8"
#[allow(dead_code)]
// #[kani::unwind(8)]
fn c20_quantile_c_vs_stepped() {
    quantile_differential::<2, 2, 4>(2, 0);
}
//@ prop=C20,C01 tier=thorough mem=10 timeout=5400 flags=modelmap uses=cut inst="quantiles_axis_mut(Axis(0), [0.3, 1.0], Midpoint) on Array2<i16> 3x2: C-order owned vs stepped view" bounds="i8-range payloads; unwind 10"
#[kani::proof]
#[kani::unwind(10)]
fn c20_quantile_c_vs_stepped_3x2() {
    quantile_differential::<3, 2, 6>(2, 0);
}
//@ prop=C20,C01 tier=thorough mem=10 timeout=5400 flags=modelmap uses=cut inst="quantiles_axis_mut(Axis(1)) on Array2<i16> 2x3: C-order owned vs C-order rows reversed (contiguous)" bounds="i8-range payloads; unwind 10"
#[kani::proof]
#[kani::unwind(10)]
fn c20_quantile_c_vs_crowrev() {
    quantile_differential::<2, 3, 6>(5, 1);
}
//@ prop=C20,C01 tier=thorough mem=10 timeout=5400 flags=modelmap uses=cut inst="quantiles_axis_mut(Axis(1)) on Array2<i16> 2x3: C-order owned vs F-order rows reversed" bounds="i8-range payloads; unwind 10"
#[kani::proof]
#[kani::unwind(10)]
fn c20_quantile_c_vs_frev() {
    quantile_differential::<2, 3, 6>(4, 1);
}

/// Static vs dynamic dimensionality on the quantile path.
//@ prop=C20,C01:thorough tier=quick mem=8 timeout=3600 flags=modelmap uses=cut inst="quantile_axis_mut(Axis(0), 0.5, Nearest) on Array2<i16> 2x1 vs the same array into_dyn()" bounds="i8-range payloads; unwind 8"
#[kani::proof]
#[kani::unwind(8)]
fn c20_quantile_static_vs_dyn() {
    let pay: [i8; 2] = kani::any();
    let vals = [pay[0] as i16, pay[1] as i16];
    arm_bulk_contract();
    let mut dynamic = parent2(&vals, 2, 1, 0, 0i16).into_dyn();
    let r2 = dynamic.quantile_axis_mut(Axis(0), n64(0.5), &Nearest).unwrap();
    let mut stat = parent2(&vals, 2, 1, 0, 0i16);
    let r3 = stat.quantile_axis_mut(Axis(0), n64(0.5), &Nearest).unwrap();
    assert!(r2.len() == 1 && r3.len() == 1);
    assert!(r2[[0]] == r3[0], "static vs dynamic dimensionality");
    kani::cover!(pay[0] != pay[1], "W: non-constant lane");
}

/// Ownership: owned / shared / copy-on-write, integer sums and distances (2x2).
//@ prop=C20,C06:thorough tier=quick mem=6 timeout=3000 inst="mean, weighted_sum, count_eq, l1_dist on Array2<i32> 2x2: owned C-order vs ArcArray of the F-order copy vs CowArray of a stepped view" bounds="all i8-range payloads; unwind 10"
#[kani::proof]
#[kani::unwind(10)]
fn c20_ownership_sums_i32() {
    let pay: [i8; 4] = kani::any();
    let vals = [pay[0] as i32, pay[1] as i32, pay[2] as i32, pay[3] as i32];
    let canon = parent2(&vals, 2, 2, 0, 0i32);
    let shared: ArcArray<i32, Ix2> = parent2(&vals, 2, 2, 1, 0i32).into_shared();
    let stepped_parent = parent2(&vals, 2, 2, 2, 7i32);
    let cow: CowArray<'_, i32, Ix2> = CowArray::from(view2(&stepped_parent, 2));
    let m = SummaryStatisticsExt::mean(&canon).unwrap();
    assert!(SummaryStatisticsExt::mean(&shared) == Ok(m) && SummaryStatisticsExt::mean(&cow) == Ok(m), "mean");
    assert!(canon.count_eq(&shared) == Ok(4) && shared.count_eq(&cow) == Ok(4) && cow.l1_dist(&canon) == Ok(0), "logically equal arrays have distance zero");
    let ws0 = canon.weighted_sum(&canon).unwrap();
    assert!(shared.weighted_sum(&shared) == Ok(ws0) && cow.weighted_sum(&cow) == Ok(ws0), "weighted_sum");
    kani::cover!(pay[0] == 127 && pay[3] == -128, "W: extreme payloads");
}

/// Ownership and dimensionality: extrema (index-returning routines return LOGICAL indexes).
//@ prop=C20,C05:thorough tier=quick mem=6 timeout=3000 inst="argmin / min on Array2<i32> 2x3: owned C-order vs ArcArray of the F-order copy vs ArrayD" bounds="all i8-range payloads; unwind 10"
#[kani::proof]
#[kani::unwind(10)]
fn c20_ownership_extrema_i32() {
    let pay: [i8; 6] = kani::any();
    let mut vals = [0i32; 6];
    let mut k = 0;
    while k < 6 {
        vals[k] = pay[k] as i32;
        k += 1;
    }
    let canon = parent2(&vals, 2, 3, 0, 0i32);
    let shared: ArcArray<i32, Ix2> = parent2(&vals, 2, 3, 1, 0i32).into_shared();
    let dynamic = canon.clone().into_dyn();
    let (i, j) = canon.argmin().unwrap();
    let (i1, j1) = shared.argmin().unwrap();
    let d = dynamic.argmin().unwrap();
    assert!(vals[i * 3 + j] == vals[i1 * 3 + j1] && vals[i * 3 + j] == vals[d[0] * 3 + d[1]], "argmin designates an extremal element of the logical array");
    assert!(canon.min() == shared.min() && *canon.min().unwrap() == *dynamic.min().unwrap(), "min");
    kani::cover!(pay[5] == -128 && pay[0] == 5, "W: minimum in the last cell");
}

/// NaN-skipping folds: static vs dynamic, C vs F-order rows reversed.
//@ prop=C20,C14:thorough tier=quick mem=6 timeout=3000 inst="min_skipnan / fold_skipnan / argmax_skipnan on ArrayView2<f32> 2x2: C-order vs F-order rows reversed vs ArrayD" bounds="all bit patterns; unwind 8"
#[kani::proof]
#[kani::unwind(8)]
fn c20_skipnan_layouts_f32() {
    let vals: [f32; 4] = kani::any();
    let canon = parent2(&vals, 2, 2, 0, 0.0f32);
    let other_p = parent2(&vals, 2, 2, 4, 0.0f32);
    let other = view2(&other_p, 4);
    let dynamic = canon.clone().into_dyn();
    let (m0, m1, m2) = (*canon.min_skipnan(), *other.min_skipnan(), *dynamic.min_skipnan());
    assert!(m0.to_bits() == m1.to_bits() || (m0 == m1) || (m0 != m0 && m1 != m1), "min_skipnan");
    assert!((m0 == m2) || (m0 != m0 && m2 != m2));
    let c0 = canon.fold_skipnan(0usize, |a, _| a + 1);
    assert!(other.fold_skipnan(0usize, |a, _| a + 1) == c0 && dynamic.fold_skipnan(0usize, |a, _| a + 1) == c0, "same number of elements seen");
    match (canon.argmax_skipnan(), other.argmax_skipnan(), dynamic.argmax_skipnan()) {
        (Ok((i, j)), Ok((i1, j1)), Ok(d)) => {
            assert!(vals[i * 2 + j] == vals[i1 * 2 + j1] && vals[i * 2 + j] == vals[d[0] * 2 + d[1]], "argmax_skipnan designates an extremal element");
        }
        (Err(_), Err(_), Err(_)) => assert!(c0 == 0),
        _ => assert!(false, "Ok in one representation and Err in another"),
    }
    kani::cover!(c0 == 3, "W: exactly one NaN");
}

/// GridBuilder::from_array reads the columns of the observation matrix by logical index.
// (not registered: not verified to finish within the session's budget on this machine) prop=C20,C12 tier=thorough mem=10 timeout=5400 flags=stub inst="GridBuilder<Sqrt<i16>>::from_array on a 3x2 matrix: C-order vs F-order" bounds="spread <= 6 per column; unwind 12"
#[allow(dead_code)]
// #[kani::unwind(12)]
// #[kani::stub(core::slice::sort::unstable::sort, model_sort)]
fn c20_gridbuilder_layouts() {
    let pay: [i8; 6] = kani::any();
    let mut vals = [0i16; 6];
    let mut k = 0;
    while k < 6 {
        kani::assume(pay[k] >= 0 && pay[k] <= 6);
        vals[k] = pay[k] as i16;
        k += 1;
    }
    let c = parent2(&vals, 3, 2, 0, 0i16);
    let f = parent2(&vals, 3, 2, 1, 0i16);
    let gc = GridBuilder::<Sqrt<i16>>::from_array(&c);
    let gf = GridBuilder::<Sqrt<i16>>::from_array(&f);
    match (gc, gf) {
        (Ok(a), Ok(b)) => {
            assert!(a.build() == b.build(), "same grid whatever the memory order of the observation matrix");
        }
        (Err(_), Err(_)) => {}
        _ => assert!(false, "accepted in one layout and rejected in the other"),
    }
    kani::cover!(true, "W: reached");
}
