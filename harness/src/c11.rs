//! C11 — histogram counts are exact for every grid and observation history.
use crate::common::*;
use ndarray::prelude::*;
use ndarray_stats::histogram::{Bins, Edges, Grid, Histogram};
use ndarray_stats::HistogramExt;

/// Oracle: the left-closed right-open bin of `v` among the first `n` (sorted, distinct) edges.
fn bin_of<const E: usize>(se: &[u8; E], n: usize, v: u8) -> Option<usize> {
    let mut r = None;
    let mut i = 0;
    while i + 1 < E {
        if i + 1 < n && se[i] <= v && v < se[i + 1] {
            r = Some(i);
        }
        i += 1;
    }
    r
}

/// 1-D grid from E symbolic edges, K symbolic observations fed one at a time; counts, shape and
/// the Ok/BinNotFound verdict checked after every insert.
fn hist_1d<const E: usize, const K: usize>() {
    let e: [u8; E] = kani::any();
    let obs: [u8; K] = kani::any();
    let edges = Edges::from(e.to_vec());
    let n = edges.len();
    let mut se = [0u8; E];
    let mut i = 0;
    while i < E {
        if i < n {
            se[i] = edges[i];
        }
        i += 1;
    }
    let nb = if n == 0 { 0 } else { n - 1 };
    let mut h = Histogram::new(Grid::from(vec![Bins::new(edges)]));
    assert!(h.ndim() == 1);
    let mut tally = [0usize; E];
    let mut k = 0;
    while k < K {
        let r = h.add_observation(&aview1(&[obs[k]]));
        let b = bin_of(&se, n, obs[k]);
        assert!(r.is_ok() == b.is_some(), "Ok iff the point lies in some bin, BinNotFound otherwise");
        if let Some(i) = b {
            tally[i] += 1;
        }
        let counts = h.counts();
        assert!(counts.ndim() == 1 && counts.shape()[0] == nb, "counts has the grid's shape");
        let mut i = 0;
        while i + 1 < E {
            if i < nb {
                assert!(counts[[i]] == tally[i], "count i == number of observations so far in bin i");
            }
            i += 1;
        }
        k += 1;
    }
    kani::cover!(nb == E - 1 && tally[0] == 1 && tally[E - 2] == K - 1, "W: all edges distinct, first and last bin hit");
    kani::cover!(nb == E - 1 && obs[0] == se[E - 1] && tally[E - 2] == 1, "W: a point on the last edge rejected, a later one accepted");
    kani::cover!(nb == 0, "W: no bins");
}

//@ prop=C11 tier=quick mem=10 timeout=3000 inst="Histogram<u8>, 1 axis from 3 symbolic edges, 2 single inserts" bounds="3 edges (0..=2 bins), 2 observations; unwind 8"
#[kani::proof]
#[kani::unwind(8)]
fn c11_hist_1d_e3_k2() {
    hist_1d::<3, 2>();
}

// (not registered: not verified to finish within the session's budget on this machine) prop=C11 tier=thorough mem=12 timeout=7200 inst="Histogram<u8>, 1 axis from 3 symbolic edges, 3 single inserts" bounds="3 edges, 3 observations; unwind 8"
#[allow(dead_code)]
// #[kani::unwind(8)]
fn c11_hist_1d_e3_k3() {
    hist_1d::<3, 3>();
}

// (not registered: not verified to finish within the session's budget on this machine) prop=C11 tier=thorough mem=12 timeout=7200 inst="Histogram<u8>, 1 axis from 4 symbolic edges, 2 single inserts" bounds="4 edges (0..=3 bins), 2 observations; unwind 9"
#[allow(dead_code)]
// #[kani::unwind(9)]
fn c11_hist_1d_e4_k2() {
    hist_1d::<4, 2>();
}

fn bin_fixed(edges: &[u8], v: u8) -> Option<usize> {
    let mut r = None;
    let mut i = 0;
    while i + 1 < edges.len() {
        if edges[i] <= v && v < edges[i + 1] {
            r = Some(i);
        }
        i += 1;
    }
    r
}

const EX: [u8; 4] = [10, 20, 30, 40]; // 3 bins
const EY: [u8; 3] = [5, 15, 25]; // 2 bins
const EZ: [u8; 3] = [100, 101, 200]; // 2 bins

/// 2-D grid with fixed edges (3 x 2 bins), K symbolic points as the rows of a matrix in a
/// symbolic layout, through `histogram()`; then one more single insert. Cell (i0, i1) must be the
/// tally of points whose x is in x-bin i0 and y in y-bin i1.
fn hist_2d_matrix<const K: usize, const K2: usize>(layout: u8) {
    let pts: [u8; K2] = kani::any(); // row-major K x 2
    let parent = parent2(&pts, K, 2, layout, 0u8);
    let m = view2(&parent, layout);
    let grid = Grid::from(vec![Bins::new(Edges::from(EX.to_vec())), Bins::new(Edges::from(EY.to_vec()))]);
    let mut h = m.histogram(grid);
    let mut tally = [[0usize; 2]; 3];
    let mut k = 0;
    while k < K {
        if let (Some(i0), Some(i1)) = (bin_fixed(&EX, pts[2 * k]), bin_fixed(&EY, pts[2 * k + 1])) {
            tally[i0][i1] += 1;
        }
        k += 1;
    }
    {
        let counts = h.counts();
        assert!(counts.shape().len() == 2 && counts.shape()[0] == 3 && counts.shape()[1] == 2, "counts has the grid's shape");
        let mut i0 = 0;
        while i0 < 3 {
            assert!(counts[[i0, 0]] == tally[i0][0] && counts[[i0, 1]] == tally[i0][1], "cell (i0,i1) counts the rows falling in x-bin i0 and y-bin i1");
            i0 += 1;
        }
    }
    // one more single insert, accepted or rejected
    let extra: [u8; 2] = kani::any();
    let r = h.add_observation(&aview1(&extra));
    let b = (bin_fixed(&EX, extra[0]), bin_fixed(&EY, extra[1]));
    match b {
        (Some(i0), Some(i1)) => {
            assert!(r.is_ok());
            tally[i0][i1] += 1;
        }
        _ => assert!(r.is_err(), "outside the grid => BinNotFound"),
    }
    let counts = h.counts();
    let mut i0 = 0;
    while i0 < 3 {
        assert!(counts[[i0, 0]] == tally[i0][0] && counts[[i0, 1]] == tally[i0][1], "a rejected insert changes nothing, an accepted one bumps exactly its cell");
        i0 += 1;
    }
    kani::cover!(tally[2][0] == 1 && tally[0][1] == 1 && r.is_err(), "W: cells (2,0) and (0,1) hit, extra point rejected");
    kani::cover!(tally[1][1] == K + 1, "W: every point in cell (1,1)");
}

// (not registered: not verified to finish within the session's budget on this machine) prop=C11,C20 tier=thorough mem=10 timeout=5400 inst="Histogram<u8> over a fixed 3x2-bin grid; observations = rows of a 2x2 F-order matrix, then one single insert" bounds="2 symbolic rows + 1 symbolic point; unwind 8"
#[allow(dead_code)]
// #[kani::unwind(8)]
fn c11_hist_2d_matrix_k2() {
    hist_2d_matrix::<2, 4>(1);
}

// (not registered: not verified to finish within the session's budget on this machine) prop=C11,C20 tier=thorough mem=12 timeout=7200 inst="Histogram<u8> over a fixed 3x2-bin grid; rows of a 3x2 stepped matrix view, then one single insert" bounds="3 symbolic rows + 1 point; unwind 8"
#[allow(dead_code)]
// #[kani::unwind(8)]
fn c11_hist_2d_matrix_k3() {
    hist_2d_matrix::<3, 6>(2);
}

/// Matrix form on a 1-axis grid (quick tier; every 2-D grid costs > 30 min because of the
/// dynamic-dimensional counts array): the rows of a K x 1 matrix are the observations, rejects are
/// skipped, counts equal the tally.
//@ prop=C11 tier=quick mem=6 timeout=1500 inst="Histogram<u8> over a fixed 3-bin 1-D grid; observations = rows of a 3x1 matrix through histogram()" bounds="3 symbolic rows; unwind 8"
#[kani::proof]
#[kani::unwind(8)]
fn c11_hist_1d_matrix_k3() {
    let pts: [u8; 3] = kani::any();
    let m = Array2::from_shape_vec((3, 1), pts.to_vec()).unwrap();
    let h = m.histogram(Grid::from(vec![Bins::new(Edges::from(EX.to_vec()))]));
    let mut tally = [0usize; 3];
    let mut k = 0;
    while k < 3 {
        if let Some(i) = bin_fixed(&EX, pts[k]) {
            tally[i] += 1;
        }
        k += 1;
    }
    let counts = h.counts();
    assert!(counts.ndim() == 1 && counts.shape()[0] == 3, "counts has the grid's shape");
    assert!(counts[[0]] == tally[0] && counts[[1]] == tally[1] && counts[[2]] == tally[2], "count i == number of rows in bin i, rejected rows skipped");
    kani::cover!(pts[0] == 10 && pts[1] == 40 && pts[2] == 39, "W: first edge accepted, last edge rejected");
}

/// Cheapest 2-D matrix form: a fixed 2 x 1-bin grid, the rows of a 2x2 F-order matrix
/// through `histogram()`; cell (i0, 0) must count the rows whose x lies in x-bin i0 and whose y lies
/// in the single y-bin (so rows, not memory chunks, are the observations).
// (not registered: 30-60 min and out of memory at 32 GB on the unchanged tree when re-tried; it did detect the C11 seed in 28 min) prop=C11,C20 tier=thorough mem=8 timeout=5400 inst="Histogram<u8> over a fixed 2x1-bin grid; observations = rows of a 2x2 F-order matrix" bounds="2 symbolic rows; unwind 8"
#[allow(dead_code)]
// #[kani::unwind(8)]
fn c11_hist_2d_matrix_small() {
    const FX: [u8; 3] = [10, 20, 30];
    const FY: [u8; 2] = [5, 15];
    let pts: [u8; 4] = kani::any(); // row-major 2 x 2
    let parent = parent2(&pts, 2, 2, 1, 0u8);
    let m = view2(&parent, 1);
    let grid = Grid::from(vec![Bins::new(Edges::from(FX.to_vec())), Bins::new(Edges::from(FY.to_vec()))]);
    let h = m.histogram(grid);
    let mut tally = [0usize; 2];
    let mut k = 0;
    while k < 2 {
        if let (Some(i0), Some(_)) = (bin_fixed(&FX, pts[2 * k]), bin_fixed(&FY, pts[2 * k + 1])) {
            tally[i0] += 1;
        }
        k += 1;
    }
    let counts = h.counts();
    assert!(counts.shape().len() == 2 && counts.shape()[0] == 2 && counts.shape()[1] == 1, "counts has the grid's shape");
    assert!(counts[[0, 0]] == tally[0] && counts[[1, 0]] == tally[1], "cell (i0, 0) counts the ROWS falling in x-bin i0 and the y-bin");
    kani::cover!(pts[0] == 12 && pts[1] == 7 && pts[2] == 25 && pts[3] == 200, "W: one row inside, one rejected on y");
}

/// 2-D grid from SYMBOLIC edges (3 and 2 input edges), one symbolic point.
// (not registered: not verified to finish within the session's budget on this machine) prop=C11 tier=thorough mem=14 timeout=7200 inst="Histogram<u8>, 2 axes from 3 and 2 symbolic edges, one single insert" bounds="(0..=2) x (0..=1) bins, one observation; unwind 8"
#[allow(dead_code)]
// #[kani::unwind(8)]
fn c11_hist_2d_symbolic_edges() {
    let e0: [u8; 3] = kani::any();
    let e1: [u8; 2] = kani::any();
    let p: [u8; 2] = kani::any();
    let ed0 = Edges::from(e0.to_vec());
    let ed1 = Edges::from(e1.to_vec());
    let (n0, n1) = (ed0.len(), ed1.len());
    let mut s0 = [0u8; 3];
    let mut s1 = [0u8; 2];
    let mut i = 0;
    while i < 3 {
        if i < n0 {
            s0[i] = ed0[i];
        }
        if i < 2 && i < n1 {
            s1[i] = ed1[i];
        }
        i += 1;
    }
    let nb0 = if n0 == 0 { 0 } else { n0 - 1 };
    let nb1 = if n1 == 0 { 0 } else { n1 - 1 };
    let mut h = Histogram::new(Grid::from(vec![Bins::new(ed0), Bins::new(ed1)]));
    let r = h.add_observation(&aview1(&p));
    let b0 = bin_of(&s0, n0, p[0]);
    let b1 = bin_of(&s1, n1, p[1]);
    assert!(r.is_ok() == (b0.is_some() && b1.is_some()));
    let counts = h.counts();
    assert!(counts.shape()[0] == nb0 && counts.shape()[1] == nb1);
    let mut i0 = 0;
    while i0 < 2 {
        if i0 < nb0 && nb1 == 1 {
            let expect = if b0 == Some(i0) && b1 == Some(0) { 1 } else { 0 };
            assert!(counts[[i0, 0]] == expect);
        }
        i0 += 1;
    }
    kani::cover!(nb0 == 2 && nb1 == 1 && b0 == Some(1) && b1 == Some(0), "W: point in cell (1,0)");
    kani::cover!(nb1 == 0, "W: an axis with zero bins");
}

/// 3-D grid with fixed edges (3 x 2 x 2 bins), two symbolic points in both orders: counts equal
/// the tally and do not depend on the order of insertion.
// (not registered: not verified to finish within the session's budget on this machine) prop=C11 tier=thorough mem=14 timeout=7200 inst="Histogram<u8> over a fixed 3x2x2-bin grid, two single inserts in both orders" bounds="2 symbolic 3-D points; unwind 8"
#[allow(dead_code)]
// #[kani::unwind(8)]
fn c11_hist_3d_order() {
    let p: [u8; 3] = kani::any();
    let q: [u8; 3] = kani::any();
    let mk = || Grid::from(vec![Bins::new(Edges::from(EX.to_vec())), Bins::new(Edges::from(EY.to_vec())), Bins::new(Edges::from(EZ.to_vec()))]);
    let mut h1 = Histogram::new(mk());
    let mut h2 = Histogram::new(mk());
    let r1p = h1.add_observation(&aview1(&p));
    let r1q = h1.add_observation(&aview1(&q));
    let r2q = h2.add_observation(&aview1(&q));
    let r2p = h2.add_observation(&aview1(&p));
    assert!(r1p.is_ok() == r2p.is_ok() && r1q.is_ok() == r2q.is_ok());
    let bp = (bin_fixed(&EX, p[0]), bin_fixed(&EY, p[1]), bin_fixed(&EZ, p[2]));
    let bq = (bin_fixed(&EX, q[0]), bin_fixed(&EY, q[1]), bin_fixed(&EZ, q[2]));
    let c1 = h1.counts();
    let c2 = h2.counts();
    assert!(c1.shape().len() == 3 && c1.shape()[0] == 3 && c1.shape()[1] == 2 && c1.shape()[2] == 2);
    let i: usize = kani::any();
    let j: usize = kani::any();
    let k: usize = kani::any();
    kani::assume(i < 3 && j < 2 && k < 2);
    let mut expect = 0usize;
    if bp == (Some(i), Some(j), Some(k)) {
        expect += 1;
    }
    if bq == (Some(i), Some(j), Some(k)) {
        expect += 1;
    }
    assert!(c1[[i, j, k]] == expect, "cell (i,j,k) is the tally");
    assert!(c2[[i, j, k]] == expect, "order of observations does not matter");
    kani::cover!(bp == (Some(2), Some(0), Some(1)) && r1q.is_err(), "W: one point in (2,0,1), the other rejected");
}
