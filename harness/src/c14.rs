//! C14 — NaN-skipping operations equal the plain operation on the data without NaNs.
use crate::c02::arm_bulk_contract;
use crate::common::*;
use ndarray::prelude::*;
use ndarray_stats::errors::EmptyInput;
use ndarray_stats::interpolate::{Higher, Lower, Nearest};
use ndarray_stats::{MaybeNan, MaybeNanExt, QuantileExt};
use noisy_float::types::{n64, N32};

fn mix(acc: u32, bits: u32) -> u32 {
    acc.wrapping_add(bits.wrapping_mul(3).wrapping_add(1))
}

/// f32, R x C in a fixed layout: value forms, index forms, folds, visit, per-axis fold.
fn skipnan_f32_2d<const R: usize, const C: usize, const RC: usize>(layout: u8) {
    let vals: [f32; RC] = kani::any();
    let p = parent2(&vals, R, C, layout, f32::NAN);
    let v = view2(&p, layout);
    // oracle: filter, then scan
    let mut cnt = 0usize;
    let mut omin = 0f32;
    let mut omax = 0f32;
    let mut osum = 0u32;
    let mut oisum = 0u32;
    let mut k = 0;
    while k < RC {
        let x = vals[k];
        if x == x {
            if cnt == 0 || x < omin {
                omin = x;
            }
            if cnt == 0 || x > omax {
                omax = x;
            }
            cnt += 1;
            osum = mix(osum, x.to_bits());
            oisum = mix(oisum, x.to_bits() ^ ((k as u32 + 1) << 20));
        }
        k += 1;
    }
    let mn = *v.min_skipnan();
    let mx = *v.max_skipnan();
    if cnt == 0 {
        assert!(mn != mn && mx != mx, "nothing left => NaN");
        assert!(v.argmin_skipnan() == Err(EmptyInput) && v.argmax_skipnan() == Err(EmptyInput));
    } else {
        assert!(mn == omin && mx == omax, "min/max_skipnan equal min/max of the data without NaNs");
        let (i, j) = v.argmin_skipnan().unwrap();
        let (a, b) = v.argmax_skipnan().unwrap();
        assert!(vals[i * C + j] == omin && vals[a * C + b] == omax, "index forms designate a position of the original array holding that value");
    }
    let fsum = v.fold_skipnan(0u32, |acc, x| mix(acc, x.raw().to_bits()));
    assert!(fsum == osum, "fold_skipnan sees each remaining element exactly once");
    let isum = v.indexed_fold_skipnan(0u32, |acc, ((i, j), x)| mix(acc, x.raw().to_bits() ^ (((i * C + j) as u32 + 1) << 20)));
    assert!(isum == oisum, "indexed_fold_skipnan pairs each remaining element with its logical index");
    let mut vcnt = 0usize;
    let mut vsum = 0u32;
    v.visit_skipnan(|x| {
        vcnt += 1;
        vsum = mix(vsum, x.raw().to_bits());
    });
    assert!(vcnt == cnt && vsum == osum, "visit_skipnan visits each remaining element exactly once");
    // per-axis fold: Axis(0) folds down the columns, Axis(1) along the rows
    let f0 = v.fold_axis_skipnan(Axis(0), 0u32, |acc, x| mix(*acc, x.raw().to_bits()));
    assert!(f0.len() == C);
    let mut j = 0;
    while j < C {
        let mut o = 0u32;
        let mut i = 0;
        while i < R {
            let x = vals[i * C + j];
            if x == x {
                o = mix(o, x.to_bits());
            }
            i += 1;
        }
        assert!(f0[j] == o, "fold_axis_skipnan(Axis(0)) folds lane j without its NaNs");
        j += 1;
    }
    let f1 = v.fold_axis_skipnan(Axis(1), 0u32, |acc, x| mix(*acc, x.raw().to_bits()));
    assert!(f1.len() == R);
    let mut i = 0;
    while i < R {
        let mut o = 0u32;
        let mut j = 0;
        while j < C {
            let x = vals[i * C + j];
            if x == x {
                o = mix(o, x.to_bits());
            }
            j += 1;
        }
        assert!(f1[i] == o, "fold_axis_skipnan(Axis(1)) folds lane i without its NaNs");
        i += 1;
    }
    kani::cover!(cnt == 0, "W: everything NaN");
    kani::cover!(cnt == RC - 1 && vals[0] != vals[0], "W: only the first element NaN");
    kani::cover!(cnt == RC, "W: no NaN");
    kani::cover!(cnt == 1 && vals[RC - 1] == vals[RC - 1], "W: only the last element is a number");
}

//@ prop=C14,C20:thorough tier=quick mem=6 timeout=2700 inst="ArrayView2<f32> 2x2, F-order" bounds="all bit patterns; unwind 8"
#[kani::proof]
#[kani::unwind(8)]
fn c14_skipnan_f32_2x2_f() {
    skipnan_f32_2d::<2, 2, 4>(1);
}
//@ prop=C14,C20:thorough tier=quick mem=6 timeout=2700 inst="ArrayView2<f32> 2x2, stepped view of a 5x5 parent" bounds="all bit patterns; unwind 8"
#[kani::proof]
#[kani::unwind(8)]
fn c14_skipnan_f32_2x2_stepped() {
    skipnan_f32_2d::<2, 2, 4>(2);
}
// (not registered: not verified to finish within the session's budget on this machine) prop=C14,C20 tier=thorough mem=8 timeout=5400 inst="ArrayView2<f32> 2x3, both axes reversed" bounds="all bit patterns; unwind 10"
#[allow(dead_code)]
// #[kani::unwind(10)]
fn c14_skipnan_f32_2x3_rev() {
    skipnan_f32_2d::<2, 3, 6>(3);
}
// (not registered: not verified to finish within the session's budget on this machine) prop=C14,C20 tier=thorough mem=8 timeout=5400 inst="ArrayView2<f32> 3x2, C-order" bounds="all bit patterns; unwind 10"
#[allow(dead_code)]
// #[kani::unwind(10)]
fn c14_skipnan_f32_3x2_c() {
    skipnan_f32_2d::<3, 2, 6>(0);
}

/// Option<i8>, 1-D lane carved from a buffer: value and index forms, fold.
fn skipnan_opt_1d<const B: usize, const LEN: usize>(layout: u8) {
    let mut buf: [Option<i8>; B] = kani::any();
    let orig = buf;
    let v = carve1(&mut buf, layout, LEN);
    let mut cnt = 0usize;
    let mut omin = 0i8;
    let mut omax = 0i8;
    let mut t = 0;
    while t < LEN {
        if let Some(x) = orig[pos1(layout, LEN, t)] {
            if cnt == 0 || x < omin {
                omin = x;
            }
            if cnt == 0 || x > omax {
                omax = x;
            }
            cnt += 1;
        }
        t += 1;
    }
    let mn = *v.min_skipnan();
    let mx = *v.max_skipnan();
    if cnt == 0 {
        assert!(mn.is_none() && mx.is_none(), "nothing left => None");
        assert!(v.argmin_skipnan() == Err(EmptyInput) && v.argmax_skipnan() == Err(EmptyInput));
    } else {
        assert!(mn == Some(omin) && mx == Some(omax));
        let i = v.argmin_skipnan().unwrap();
        let a = v.argmax_skipnan().unwrap();
        assert!(orig[pos1(layout, LEN, i)] == Some(omin) && orig[pos1(layout, LEN, a)] == Some(omax));
    }
    let c = v.fold_skipnan(0usize, |acc, _x| acc + 1);
    assert!(c == cnt);
    kani::cover!(cnt == 0, "W: all None");
    kani::cover!(cnt == LEN - 1 && orig[pos1(layout, LEN, LEN - 1)].is_none(), "W: only the last element None");
}

//@ prop=C14 tier=quick mem=4 timeout=1800 inst="ArrayViewMut1<Option<i8>>, reversed stride 2, len 4" bounds="all None placements and payloads; unwind 10"
#[kani::proof]
#[kani::unwind(10)]
fn c14_skipnan_opt_i8_revstep2_l4() {
    skipnan_opt_1d::<9, 4>(4);
}

/// map_axis_skipnan_mut on an R x C array: the lane handed to the closure is exactly the lane's
/// non-missing elements (length, multiset by checksum, nothing missing).
fn map_axis_skipnan<const R: usize, const C: usize, const RC: usize>(layout: u8, axis: usize) {
    let vals: [Option<i8>; RC] = kani::any();
    let mut p = parent2(&vals, R, C, layout, None);
    let mut v = view2_mut(&mut p, layout);
    let out = v.map_axis_skipnan_mut(Axis(axis), |lane| {
        let mut s = 0u32;
        let n = lane.len();
        for x in lane.iter() {
            let y: i8 = **x;
            s = mix(s, y as u8 as u32);
        }
        (n, s)
    });
    let lanes = if axis == 0 { C } else { R };
    let lane_len = if axis == 0 { R } else { C };
    assert!(out.len() == lanes);
    let mut l = 0;
    while l < lanes {
        let mut n = 0usize;
        let mut s = 0u32;
        let mut t = 0;
        while t < lane_len {
            let e = if axis == 0 { vals[t * C + l] } else { vals[l * C + t] };
            if let Some(y) = e {
                n += 1;
                s = mix(s, y as u8 as u32);
            }
            t += 1;
        }
        assert!(out[l] == (n, s), "the closure sees exactly the lane's non-missing elements");
        l += 1;
    }
    kani::cover!(out[0].0 == 0, "W: first lane entirely missing");
    kani::cover!(out[0].0 == lane_len, "W: first lane complete");
}

//@ prop=C14,C04:thorough,C03 tier=quick mem=6 timeout=2700 inst="map_axis_skipnan_mut on ArrayViewMut2<Option<i8>> 2x3 C-order, Axis(0) (non-contiguous lanes)" bounds="all None placements; unwind 10"
#[kani::proof]
#[kani::unwind(10)]
fn c14_map_axis_skipnan_opt_2x3_ax0() {
    map_axis_skipnan::<2, 3, 6>(0, 0);
}
// (not registered: not verified to finish within the session's budget on this machine) prop=C14,C04,C03 tier=thorough mem=6 timeout=3600 inst="map_axis_skipnan_mut on ArrayViewMut2<Option<i8>> 3x2 stepped view, Axis(1)" bounds="all None placements; unwind 10"
#[allow(dead_code)]
// #[kani::unwind(10)]
fn c14_map_axis_skipnan_opt_3x2_stepped_ax1() {
    map_axis_skipnan::<3, 2, 6>(2, 1);
}

/// quantile_axis_skipnan_mut on a 1-D lane of Option<i8> (selection cut to its contract):
/// equals the order statistic of the filtered lane, or None when nothing is left.
fn quantile_skipnan_opt<const LEN: usize>(which: u8) {
    let vals: [Option<i8>; LEN] = kani::any();
    let mut a = Array1::from(vals.to_vec());
    arm_bulk_contract();
    let mut filt = [0i8; LEN];
    let mut m = 0usize;
    let mut t = 0;
    while t < LEN {
        if let Some(x) = vals[t] {
            filt[m] = x;
            m += 1;
        }
        t += 1;
    }
    // q = 0.5: Lower -> index floor((m-1)/2), Higher -> ceil((m-1)/2); q = 1.0 -> m-1
    let (r, idx) = match which {
        0 => (a.quantile_axis_skipnan_mut(Axis(0), n64(0.5), &Lower).unwrap().into_scalar(), if m == 0 { 0 } else { (m - 1) / 2 }),
        1 => (a.quantile_axis_skipnan_mut(Axis(0), n64(0.5), &Higher).unwrap().into_scalar(), m / 2),
        _ => (a.quantile_axis_skipnan_mut(Axis(0), n64(1.0), &Nearest).unwrap().into_scalar(), if m == 0 { 0 } else { m - 1 }),
    };
    if m == 0 {
        assert!(r.is_none(), "all-missing lane => missing value");
    } else {
        let x = r.unwrap();
        assert!(rank_ok(&filt, m, &x, idx), "equals the quantile of the lane with the missing values deleted");
    }
    // the lane still holds the same multiset, missing values included
    let w: Option<i8> = kani::any();
    let mut c1 = 0usize;
    for e in a.iter() {
        if *e == w {
            c1 += 1;
        }
    }
    assert!(count_eq(&vals, LEN, &w) == c1, "lane multiset preserved, missing values included");
    kani::cover!(m == 0, "W: all missing");
    kani::cover!(m == LEN, "W: none missing");
    kani::cover!(LEN < 3 || (m == 2 && vals[1].is_none()), "W: the middle element missing");
}

//@ prop=C14,C03 tier=quick mem=8 timeout=3000 flags=modelmap uses=cut inst="quantile_axis_skipnan_mut(q=0.5, Lower) on Array1<Option<i8>> len 3" bounds="all None placements and payloads; unwind 8"
#[kani::proof]
#[kani::unwind(8)]
fn c14_quantile_skipnan_opt_lower_l3() {
    quantile_skipnan_opt::<3>(0);
}
// (not registered: not verified to finish within the session's budget on this machine) prop=C14,C03 tier=thorough mem=8 timeout=5400 flags=modelmap uses=cut inst="quantile_axis_skipnan_mut(q=0.5, Higher) on Array1<Option<i8>> len 3" bounds="all None placements and payloads; unwind 8"
#[allow(dead_code)]
// #[kani::unwind(8)]
fn c14_quantile_skipnan_opt_higher_l3() {
    quantile_skipnan_opt::<3>(1);
}
// (not registered: not verified to finish within the session's budget on this machine) prop=C14,C03 tier=thorough mem=8 timeout=5400 flags=modelmap uses=cut inst="quantile_axis_skipnan_mut(q=1.0, Nearest) on Array1<Option<i8>> len 4" bounds="all None placements and payloads; unwind 9"
#[allow(dead_code)]
// #[kani::unwind(9)]
fn c14_quantile_skipnan_opt_max_l4() {
    quantile_skipnan_opt::<4>(2);
}

/// 3-D (and IxDyn): the index forms and the indexed fold report LOGICAL indexes, also through
/// cyclically permuted axes (stride order a 3-cycle) and when the extremum lies outside the first
/// slab along axis 0. `what`: 0 = argmin/argmax_skipnan, 1 = indexed_fold_skipnan, 2 = IxDyn argmin.
fn skipnan_3d(perm: u8, what: u8) {
    let vals: [Option<i8>; 8] = kani::any(); // logical (i, j, k) of a 2x2x2 array = vals[4 i + 2 j + k]
    // store so that the requested axis permutation of the parent gives back the logical array
    let parent = match perm {
        0 => Array3::from_shape_fn((2, 2, 2), |(i, j, k)| vals[4 * i + 2 * j + k]),
        // view = parent.permuted_axes([1, 2, 0]) has logical (i, j, k) = parent[k, i, j]
        1 => Array3::from_shape_fn((2, 2, 2), |(a, b, c)| vals[4 * b + 2 * c + a]),
        // view = parent.permuted_axes([2, 0, 1]) has logical (i, j, k) = parent[j, k, i]
        _ => Array3::from_shape_fn((2, 2, 2), |(a, b, c)| vals[4 * c + 2 * a + b]),
    };
    let v = match perm {
        0 => parent.view(),
        1 => parent.view().permuted_axes([1, 2, 0]),
        _ => parent.view().permuted_axes([2, 0, 1]),
    };
    let mut cnt = 0usize;
    let mut omin = 0i8;
    let mut omax = 0i8;
    let mut oisum = 0u32;
    let mut t = 0;
    while t < 8 {
        if let Some(x) = vals[t] {
            if cnt == 0 || x < omin {
                omin = x;
            }
            if cnt == 0 || x > omax {
                omax = x;
            }
            cnt += 1;
            oisum = mix(oisum, (x as u8 as u32) ^ ((t as u32 + 1) << 12));
        }
        t += 1;
    }
    if what == 0 {
        match (v.argmin_skipnan(), v.argmax_skipnan()) {
            (Ok((i, j, k)), Ok((a, b, c))) => {
                assert!(cnt > 0);
                assert!(i < 2 && j < 2 && k < 2 && a < 2 && b < 2 && c < 2, "indexes inside the logical shape");
                assert!(vals[4 * i + 2 * j + k] == Some(omin) && vals[4 * a + 2 * b + c] == Some(omax), "index forms designate a position of the logical array holding the extremum");
            }
            (Err(_), Err(_)) => assert!(cnt == 0),
            _ => assert!(false),
        }
    } else if what == 1 {
        let isum = v.indexed_fold_skipnan(0u32, |acc, ((i, j, k), x)| mix(acc, (**x as u8 as u32) ^ (((4 * i + 2 * j + k) as u32 + 1) << 12)));
        assert!(isum == oisum, "indexed_fold_skipnan pairs each remaining element with its logical index");
    } else {
        let d = v.into_dyn();
        match d.argmin_skipnan() {
            Ok(ix) => assert!(cnt > 0 && ix.ndim() == 3 && ix[0] < 2 && ix[1] < 2 && ix[2] < 2 && vals[4 * ix[0] + 2 * ix[1] + ix[2]] == Some(omin), "IxDyn index form"),
            Err(_) => assert!(cnt == 0),
        }
    }
    kani::cover!(vals[6] == Some(-128) && vals[3] == Some(127) && vals[0] == Some(0), "W: minimum at (1,1,0), maximum at (0,1,1)");
    kani::cover!(vals[0].is_none() && vals[7].is_none() && vals[5] == Some(3), "W: some missing");
}

//@ prop=C14,C20:thorough tier=quick mem=6 timeout=3000 inst="argmin_skipnan / argmax_skipnan on ArrayView3<Option<i8>> 2x2x2 seen through permuted_axes([1,2,0])" bounds="all None placements and payloads; unwind 12"
#[kani::proof]
#[kani::unwind(12)]
fn c14_skipnan_3d_cyclic_arg() {
    skipnan_3d(1, 0);
}
//@ prop=C14,C20 tier=quick mem=6 timeout=3000 inst="indexed_fold_skipnan on ArrayView3<Option<i8>> 2x2x2 seen through permuted_axes([1,2,0])" bounds="all None placements and payloads; unwind 12"
#[kani::proof]
#[kani::unwind(12)]
fn c14_skipnan_3d_cyclic_fold() {
    skipnan_3d(1, 1);
}
//@ prop=C14,C20:thorough tier=thorough mem=6 timeout=5400 inst="argmin_skipnan on ArrayD<Option<i8>> 2x2x2 (into_dyn of a permuted view [2,0,1])" bounds="all None placements and payloads; unwind 12"
#[kani::proof]
#[kani::unwind(12)]
fn c14_skipnan_3d_cyclic2_dyn() {
    skipnan_3d(2, 2);
}
//@ prop=C14,C20:thorough tier=thorough mem=6 timeout=5400 inst="argmin/argmax_skipnan on Array3<Option<i8>> 2x2x2 standard layout" bounds="all None placements and payloads; unwind 12"
#[kani::proof]
#[kani::unwind(12)]
fn c14_skipnan_3d_standard_arg() {
    skipnan_3d(0, 0);
}
