//! Exact rational scalar `Q` (unnormalised i64/i64) at which the crate's GENERIC `A: Float` code is
//! instantiated, so that "equals the defined quantity" becomes an exact assertion. `ln` is exact on
//! powers of two (in units of ln 2), `sqrt` on ratios of perfect squares, `powi` is repeated
//! multiplication; everything else is unreachable. This is harness code: it is an *instantiation*
//! of the crate's generic functions, not a model of them.
#![allow(unused)]
use num_traits::{Float, FromPrimitive, Num, NumCast, One, ToPrimitive, Zero};
use std::cmp::Ordering;
use std::ops::*;

/// Exact rational scalar, unnormalised, d > 0.
#[derive(Clone, Copy, Debug)]
pub struct Q { pub n: i64, pub d: i64 }
impl Q { pub fn int(n: i64) -> Q { Q { n, d: 1 } } }
impl Q { pub fn is_nanq(&self) -> bool { self.d == 0 && self.n == 0 } pub fn is_infq(&self) -> bool { self.d == 0 && self.n != 0 } pub const NAN: Q = Q { n: 0, d: 0 }; pub const NINF: Q = Q { n: -1, d: 0 }; pub const PINF: Q = Q { n: 1, d: 0 }; }
impl PartialEq for Q { fn eq(&self, o: &Q) -> bool { if self.is_nanq() || o.is_nanq() { return false; } if self.d == 0 || o.d == 0 { return self.d == 0 && o.d == 0 && (self.n > 0) == (o.n > 0); } (self.n as i128) * (o.d as i128) == (o.n as i128) * (self.d as i128) } }
impl PartialOrd for Q { fn partial_cmp(&self, o: &Q) -> Option<Ordering> { if self.is_nanq() || o.is_nanq() { return None; } ((self.n as i128) * (o.d as i128)).partial_cmp(&((o.n as i128) * (self.d as i128))) } }
impl Add for Q { type Output = Q; fn add(self, o: Q) -> Q { if self.is_nanq() || o.is_nanq() { return Q::NAN; } if self.d == 0 && o.d == 0 { return if (self.n > 0) == (o.n > 0) { self } else { Q::NAN }; } if self.d == 0 { return self; } if o.d == 0 { return o; } Q { n: self.n * o.d + o.n * self.d, d: self.d * o.d } } }
impl Sub for Q { type Output = Q; fn sub(self, o: Q) -> Q { self + (-o) } }
impl Mul for Q { type Output = Q; fn mul(self, o: Q) -> Q { if self.is_nanq() || o.is_nanq() { return Q::NAN; } if self.d == 0 || o.d == 0 { if self.n == 0 || o.n == 0 { return Q::NAN; } return if (self.n > 0) == (o.n > 0) { Q::PINF } else { Q::NINF }; } Q { n: self.n * o.n, d: self.d * o.d } } }
impl Div for Q { type Output = Q; fn div(self, o: Q) -> Q {
    if self.is_nanq() || o.is_nanq() { return Q::NAN; }
    if o.d == 0 { return if self.d == 0 { Q::NAN } else { Q::int(0) }; }
    if self.d == 0 { return if (self.n > 0) == (o.n >= 0) { Q::PINF } else { Q::NINF }; }
    if o.n == 0 { return if self.n == 0 { Q::NAN } else if self.n > 0 { Q::PINF } else { Q::NINF }; }
    let (n, d) = (self.n * o.d, self.d * o.n); if d < 0 { Q { n: -n, d: -d } } else { Q { n, d } } } }
impl Rem for Q { type Output = Q; fn rem(self, _o: Q) -> Q { unreachable!() } }
impl Neg for Q { type Output = Q; fn neg(self) -> Q { Q { n: -self.n, d: self.d } } }
fn isqrt_exact(v: i64) -> Option<i64> { let mut k = 0i64; while k < 16 { if k * k == v { return Some(k); } k += 1; } None }
fn log2_exact(v: i64) -> Option<i64> { let mut k = 0; let mut p = 1i64; while k < 8 { if p == v { return Some(k); } p *= 2; k += 1; } None }
impl AddAssign for Q { fn add_assign(&mut self, o: Q) { *self = *self + o; } }
impl Zero for Q { fn zero() -> Q { Q::int(0) } fn is_zero(&self) -> bool { self.n == 0 } }
impl One for Q { fn one() -> Q { Q::int(1) } }
impl Num for Q { type FromStrRadixErr = (); fn from_str_radix(_: &str, _: u32) -> Result<Q, ()> { unreachable!() } }
impl ToPrimitive for Q { fn to_i64(&self) -> Option<i64> { unreachable!() } fn to_u64(&self) -> Option<u64> { unreachable!() } }
impl NumCast for Q { fn from<T: ToPrimitive>(n: T) -> Option<Q> { n.to_i64().map(Q::int) } }
impl FromPrimitive for Q { fn from_i64(n: i64) -> Option<Q> { Some(Q::int(n)) } fn from_u64(n: u64) -> Option<Q> { Some(Q::int(n as i64)) } }
macro_rules! un { ($($f:ident),*) => { $( fn $f(self) -> Self { unreachable!() } )* } }
impl Float for Q {
    fn nan() -> Q { unreachable!() } fn infinity() -> Q { unreachable!() } fn neg_infinity() -> Q { unreachable!() } fn neg_zero() -> Q { unreachable!() }
    fn min_value() -> Q { unreachable!() } fn min_positive_value() -> Q { unreachable!() } fn max_value() -> Q { unreachable!() }
    fn is_nan(self) -> bool { false } fn is_infinite(self) -> bool { false } fn is_finite(self) -> bool { true } fn is_normal(self) -> bool { true }
    fn classify(self) -> std::num::FpCategory { unreachable!() }
    un!(floor, ceil, round, trunc, fract, signum, exp, exp2, log2, log10, cbrt, sin, cos, tan, asin, acos, atan, exp_m1, ln_1p, sinh, cosh, tanh, asinh, acosh, atanh);
    /// sqrt, exact on ratios of perfect squares (<= 15^2); anything else is outside the harness domain.
    fn sqrt(self) -> Q { if self.is_nanq() || self.n < 0 { return Q::NAN; } match (isqrt_exact(self.n), isqrt_exact(self.d)) { (Some(a), Some(b)) => Q { n: a, d: b }, _ => { kani_unsupported(); Q::NAN } } }
    /// ln in units of ln 2, exact on 2^k; ln 0 = -inf; NaN and negatives give NaN.
    fn ln(self) -> Q { if self.is_nanq() || self.n < 0 { return Q::NAN; } if self.d == 0 { return Q::PINF; } if self.n == 0 { return Q::NINF; } match (log2_exact(self.n), log2_exact(self.d)) { (Some(a), Some(b)) => Q::int(a - b), _ => { kani_unsupported(); Q::NAN } } }
    fn abs(self) -> Q { if self.n < 0 { -self } else { self } }
    fn is_sign_positive(self) -> bool { self.n >= 0 } fn is_sign_negative(self) -> bool { self.n < 0 }
    fn mul_add(self, a: Q, b: Q) -> Q { self * a + b }
    fn recip(self) -> Q { Q::int(1) / self }
    fn powi(self, k: i32) -> Q { let mut r = Q::int(1); let mut i = 0; while i < k { r = r * self; i += 1; } r }
    fn powf(self, _: Q) -> Q { unreachable!() } fn log(self, _: Q) -> Q { unreachable!() }
    fn max(self, o: Q) -> Q { if self >= o { self } else { o } } fn min(self, o: Q) -> Q { if self <= o { self } else { o } }
    fn abs_sub(self, _: Q) -> Q { unreachable!() } fn hypot(self, _: Q) -> Q { unreachable!() } fn atan2(self, _: Q) -> Q { unreachable!() }
    fn sin_cos(self) -> (Q, Q) { unreachable!() }
    fn integer_decode(self) -> (u64, i16, i8) { unreachable!() }
}

#[cfg(kani)] fn kani_unsupported() { kani::assume(false); }
#[cfg(not(kani))] fn kani_unsupported() { unreachable!() }

