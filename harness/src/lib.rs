//! Kani proof harnesses over the real ndarray-stats crate (path dependency on /repo).
//! Every `#[kani::proof]` is preceded by a `//@` line that the driver (`/verif/check`)
//! parses: which properties it serves, tier, engine flags, expected verdict kind,
//! instantiation and bounds.
#![allow(unused, static_mut_refs, clippy::all)]

pub mod common;
pub mod q;
#[cfg(kani)]
mod c15;
#[cfg(kani)]
mod c02;
#[cfg(kani)]
mod c16;
#[cfg(kani)]
mod c13;
#[cfg(kani)]
mod c04;
#[cfg(kani)]
mod c05;
#[cfg(kani)]
mod c09;
#[cfg(kani)]
mod c11;
#[cfg(kani)]
mod c12;
#[cfg(kani)]
mod c14;
#[cfg(kani)]
mod c06;
#[cfg(kani)]
mod c07;
#[cfg(kani)]
mod c10;
#[cfg(kani)]
mod c08;
#[cfg(kani)]
mod c01;
#[cfg(kani)]
mod c17;
#[cfg(kani)]
mod c18;
#[cfg(kani)]
mod c19;
#[cfg(kani)]
mod c20;
