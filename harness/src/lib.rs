//! Kani proof harnesses over the real ndarray-stats crate (path dependency on /repo).
//! Every `#[kani::proof]` is preceded by a `//@` line that the driver (`/verif/check`)
//! parses: which properties it serves, tier, engine flags, expected verdict kind,
//! instantiation and bounds.
#![allow(unused, static_mut_refs, clippy::all)]

pub mod common;
#[cfg(kani)]
mod c15;
#[cfg(kani)]
mod c02;
#[cfg(kani)]
mod c16;
