//! C07 — variance, central moments, skewness and kurtosis agree with exact arithmetic.
use crate::common::*;
use crate::q::Q;
use ndarray::prelude::*;
use ndarray_stats::SummaryStatisticsExt;

fn small() -> i64 {
    let b: u8 = kani::any();
    (b & 3) as i64
}

/// Orders 0 and 1 are exactly 1 and 0 for ANY non-empty f64 contents (NaN / inf included).
//@ prop=C07,C18:thorough tier=quick mem=3 timeout=1200 inst="central_moment / central_moments on Array1<f64> len 3 and ArrayView2<f64> 2x2 F-order" bounds="all bit patterns; orders 0 and 1; unwind 8"
#[kani::proof]
#[kani::unwind(8)]
fn c07_orders_0_1_any_f64() {
    let x: [f64; 3] = kani::any();
    let a = Array1::from(x.to_vec());
    assert!(a.central_moment(0) == Ok(1.0) && a.central_moment(1) == Ok(0.0));
    let m0 = a.central_moments(0).unwrap();
    let m1 = a.central_moments(1).unwrap();
    assert!(m0.len() == 1 && m0[0] == 1.0);
    assert!(m1.len() == 2 && m1[0] == 1.0 && m1[1] == 0.0);
    let y: [f64; 4] = kani::any();
    let p = parent2(&y, 2, 2, 1, 0.0f64);
    let v = view2(&p, 1);
    assert!(v.central_moment(0) == Ok(1.0) && v.central_moment(1) == Ok(0.0));
    kani::cover!(x[0] != x[0] && x[1] == f64::INFINITY, "W: NaN and infinity in the data");
}

/// weighted_var / weighted_std at Q against the definition, ddof in {0, 1}.
fn wvar_q<const N: usize>(ddof: i64) {
    let mut x = [0i64; N];
    let mut w = [0i64; N];
    let mut k = 0;
    while k < N {
        x[k] = small();
        w[k] = small() + 1;
        k += 1;
    }
    let mut xv = Vec::with_capacity(N);
    let mut wv = Vec::with_capacity(N);
    let mut bw = 0i64;
    let mut swx = 0i64;
    let mut swxx = 0i64;
    let mut k = 0;
    while k < N {
        xv.push(Q::int(x[k]));
        wv.push(Q::int(w[k]));
        bw += w[k];
        swx += w[k] * x[k];
        swxx += w[k] * x[k] * x[k];
        k += 1;
    }
    kani::assume(bw != ddof);
    let a = Array1::from(xv);
    let ww = Array1::from(wv);
    let v = a.weighted_var(&ww, Q::int(ddof)).unwrap();
    // sum w (x - xbar)^2 = swxx - swx^2 / W, divided by (W - ddof)
    let expect = Q { n: bw * swxx - swx * swx, d: bw * (bw - ddof) };
    assert!(v == expect, "weighted_var == sum w (x - xbar_w)^2 / (sum w - ddof)");
    assert!(v >= Q::int(0), "variance with positive weights is non-negative");
    kani::cover!(N < 2 || v == Q { n: 1, d: 2 }, "W: variance 1/2");
    kani::cover!(v == Q::int(0), "W: zero variance");
}

//@ prop=C07 tier=quick mem=4 timeout=2400 uses=Q inst="weighted_var on Array1<Q> len 3, ddof 1" bounds="x in 0..=3, w in 1..=4; unwind 18"
#[kani::proof]
#[kani::unwind(18)]
fn c07_wvar_q_n3_ddof1() {
    wvar_q::<3>(1);
}
//@ prop=C07 tier=thorough mem=4 timeout=2400 uses=Q inst="weighted_var on Array1<Q> len 3, ddof 0" bounds="x in 0..=3, w in 1..=4; unwind 18"
#[kani::proof]
#[kani::unwind(18)]
fn c07_wvar_q_n3_ddof0() {
    wvar_q::<3>(0);
}
//@ prop=C07 tier=quick mem=3 timeout=1800 uses=Q inst="weighted_var on Array1<Q> len 1 (single observation), ddof 0" bounds="x in 0..=3, w in 1..=4; unwind 18"
#[kani::proof]
#[kani::unwind(18)]
fn c07_wvar_q_n1_ddof0() {
    wvar_q::<1>(0);
}
// (not registered: not verified to finish within the session's budget on this machine) prop=C07 tier=thorough mem=8 timeout=7200 uses=Q inst="weighted_var on Array1<Q> len 4, ddof 1" bounds="x in 0..=3, w in 1..=4; unwind 18"
#[allow(dead_code)]
// #[kani::unwind(18)]
fn c07_wvar_q_n4_ddof1() {
    wvar_q::<4>(1);
}

/// weighted_var with data and weights in DIFFERENT memory orders (data: reversed view, weights:
/// plain; both contiguous) — pairing must be by logical index.
fn wvar_q_layouts<const N: usize>(ldata: u8, lw: u8, ddof: i64, wbits: u8) {
    let mut x = [0i64; N];
    let mut w = [0i64; N];
    let mut bx = [Q::int(0); N];
    let mut bw = [Q::int(0); N];
    let mut bws = 0i64;
    let mut swx = 0i64;
    let mut swxx = 0i64;
    let mut k = 0;
    while k < N {
        x[k] = small();
        w[k] = (small() & (wbits as i64)) + 1;
        bx[pos1(ldata, N, k)] = Q::int(x[k]);
        bw[pos1(lw, N, k)] = Q::int(w[k]);
        bws += w[k];
        swx += w[k] * x[k];
        swxx += w[k] * x[k] * x[k];
        k += 1;
    }
    kani::assume(bws != ddof);
    let xv = carve1(&mut bx, ldata, N);
    let wv = carve1(&mut bw, lw, N);
    let v = xv.view().weighted_var(&wv.view(), Q::int(ddof)).unwrap();
    assert!(v == Q { n: bws * swxx - swx * swx, d: bws * (bws - ddof) }, "data and weights are paired by logical index whatever their memory order");
    kani::cover!(x[0] != x[N - 1] && w[0] != w[N - 1], "W: asymmetric data and weights");
}

// (n = 2 is blind to a data/weight mis-pairing: the weighted variance of two points is symmetric
// under swapping the weights - found when the C07 seed passed the n = 2 harness - so n = 3, with
// 1-bit weights to keep it inside the quick budget)
//@ prop=C07,C20:thorough tier=quick mem=4 timeout=2400 uses=Q inst="weighted_var on ArrayView1<Q> len 3: data reversed (stride -1), weights unit stride, ddof 0" bounds="x in 0..=3, w in 1..=2; unwind 18"
#[kani::proof]
#[kani::unwind(18)]
fn c07_wvar_q_n3_rev_data_w1() {
    wvar_q_layouts::<3>(3, 0, 0, 1);
}
//@ prop=C07,C20 tier=thorough mem=4 timeout=3600 uses=Q inst="weighted_var on ArrayView1<Q> len 3: data reversed (stride -1), weights unit stride, ddof 0" bounds="x in 0..=3, w in 1..=4; unwind 18"
#[kani::proof]
#[kani::unwind(18)]
fn c07_wvar_q_n3_rev_data() {
    wvar_q_layouts::<3>(3, 0, 0, 3);
}

/// central_moment(p), every entry of central_moments(p), kurtosis at Q, n = 3.
/// (1/n) sum (x - s/n)^p = sum (n x - s)^p / n^(p+1).
fn cmom_q<const N: usize>(p: u16) {
    let mut x = [0i64; N];
    let mut xv = Vec::with_capacity(N);
    let mut s = 0i64;
    let mut k = 0;
    while k < N {
        x[k] = small();
        xv.push(Q::int(x[k]));
        s += x[k];
        k += 1;
    }
    let a = Array1::from(xv);
    let n = N as i64;
    let mut acc = [0i64; 5]; // acc[q] = sum (n x - s)^q
    let mut npow = [1i64; 6]; // n^q
    let mut q = 1;
    while q < 6 {
        npow[q] = npow[q - 1] * n;
        q += 1;
    }
    let mut k = 0;
    while k < N {
        let d = n * x[k] - s;
        let mut pw = 1i64;
        let mut q = 0;
        while q < 5 {
            acc[q] += pw;
            pw *= d;
            q += 1;
        }
        k += 1;
    }
    let m = a.central_moment(p).unwrap();
    let pu = p as usize;
    assert!(m == Q { n: acc[pu], d: npow[pu + 1] }, "central_moment(p) == (1/n) sum (x - xbar)^p");
    let ms = a.central_moments(p).unwrap();
    assert!(ms.len() == pu + 1);
    let mut q = 0;
    while q < 5 {
        if q <= pu {
            assert!(ms[q] == Q { n: acc[q], d: npow[q + 1] }, "central_moments(p)[k] == the k-th central moment");
        }
        q += 1;
    }
    kani::cover!(acc[pu] != 0, "W: non-zero moment");
}

//@ prop=C07,C18:thorough tier=quick mem=4 timeout=2400 uses=Q inst="central_moment(3) / central_moments(3) on Array1<Q> len 3" bounds="x in 0..=3; unwind 18"
#[kani::proof]
#[kani::unwind(18)]
fn c07_cmom_q_n3_p3() {
    cmom_q::<3>(3);
}
//@ prop=C07,C18:thorough tier=quick mem=4 timeout=2400 uses=Q inst="central_moment(2) / central_moments(2) on Array1<Q> len 3" bounds="x in 0..=3; unwind 18"
#[kani::proof]
#[kani::unwind(18)]
fn c07_cmom_q_n3_p2() {
    cmom_q::<3>(2);
}
// (not registered: the harness's exact scalar Q (i64/i64, unnormalised) overflows at order 4: a defect of the harness, not of the crate) prop=C07,C18 tier=thorough mem=6 timeout=5400 uses=Q inst="central_moment(4) / central_moments(4) on Array1<Q> len 3" bounds="x in 0..=3; unwind 18"
#[allow(dead_code)]
// #[kani::unwind(18)]
fn c07_cmom_q_n3_p4() {
    cmom_q::<3>(4);
}
// (not registered: not verified to finish within the session's budget on this machine) prop=C07,C18 tier=thorough mem=6 timeout=5400 uses=Q inst="central_moment(3) / central_moments(3) on Array1<Q> len 4" bounds="x in 0..=3; unwind 18"
#[allow(dead_code)]
// #[kani::unwind(18)]
fn c07_cmom_q_n4_p3() {
    cmom_q::<4>(3);
}

/// kurtosis == mu4 / mu2^2 at Q, n = 3, non-constant data.
// (not registered: the harness's exact scalar Q (i64/i64, unnormalised) overflows at order 4: a defect of the harness, not of the crate) prop=C07 tier=thorough mem=6 timeout=5400 uses=Q inst="kurtosis on Array1<Q> len 3" bounds="x in 0..=3, not all equal; unwind 18"
#[allow(dead_code)]
// #[kani::unwind(18)]
fn c07_kurtosis_q_n3() {
    let x = [small(), small(), small()];
    kani::assume(!(x[0] == x[1] && x[1] == x[2]));
    let a = Array1::from(vec![Q::int(x[0]), Q::int(x[1]), Q::int(x[2])]);
    let s = x[0] + x[1] + x[2];
    let mut a2 = 0i64;
    let mut a4 = 0i64;
    let mut k = 0;
    while k < 3 {
        let d = 3 * x[k] - s;
        a2 += d * d;
        a4 += d * d * d * d;
        k += 1;
    }
    // mu4 = a4 / 3^5, mu2 = a2 / 3^3  =>  mu4 / mu2^2 = 3 a4 / a2^2
    let kq = a.kurtosis().unwrap();
    assert!(kq == Q { n: 3 * a4, d: a2 * a2 }, "kurtosis == mu4 / mu2^2");
    kani::cover!(kq == Q { n: 3, d: 2 }, "W: kurtosis 3/2");
}

/// weighted_var >= 0 and not NaN at f32 (real rounding), n = 2, bounded magnitudes.
// (not registered: not verified to finish within the session's budget on this machine) prop=C07 tier=thorough mem=4 timeout=7200 inst="weighted_var on Array1<f32> len 2, ddof 0" bounds="weights in [2^-4, 2^4], |x| <= 2^10; unwind 8" cbmc="--unwindset memcmp.0:33"
#[allow(dead_code)]
// #[kani::unwind(8)]
fn c07_wvar_nonneg_f32_n2() {
    let x: [f32; 2] = kani::any();
    let w: [f32; 2] = kani::any();
    kani::assume(x[0].abs() <= 1024.0 && x[1].abs() <= 1024.0);
    kani::assume(w[0] >= 0.0625 && w[0] <= 16.0 && w[1] >= 0.0625 && w[1] <= 16.0);
    let a = Array1::from(x.to_vec());
    let ww = Array1::from(w.to_vec());
    let v = a.weighted_var(&ww, 0.0).unwrap();
    assert!(v >= 0.0, "variance with positive weights is non-negative (and not NaN)");
    let sd = a.weighted_std(&ww, 0.0).unwrap();
    // CBMC's sqrt model is only accurate to an ulp (and not a function): assert the defining relation
    assert!(sd >= 0.0 && (sd * sd - v).abs() <= 1.0e-5 * v, "weighted_std is the square root of weighted_var");
    kani::cover!(x[0] == -1000.0 && x[1] == 1000.0, "W: large spread");
}

/// ddof outside [0, 1] is rejected by the documented panic.
//@ prop=C07 tier=quick kind=panic mem=3 timeout=1200 inst="weighted_var on Array1<f32> len 2 with ddof < 0 or ddof > 1" bounds="any finite ddof outside [0,1]; unwind 8" cbmc="--unwindset memcmp.0:33"
#[kani::proof]
#[kani::unwind(8)]
#[kani::should_panic]
fn c07_wvar_bad_ddof_panics() {
    let ddof: f32 = kani::any();
    kani::assume(ddof < 0.0 || ddof > 1.0);
    let a = Array1::from(vec![1.0f32, 2.0]);
    let w = Array1::from(vec![1.0f32, 1.0]);
    kani::cover!(ddof == 2.0, "W: ddof == 2");
    let _ = a.weighted_var(&w, ddof);
    kani::cover!(true, "NR: weighted_var returned for ddof outside [0,1]");
}

/// Per-axis variance equals the whole-array routine lane by lane, at Q (exact); the std form
/// through its square (Q has sqrt on perfect squares only).
fn var_axis_q<const R: usize, const C: usize, const RC: usize>(layout: u8, axis: usize, ddof: i64) {
    let mut xq = [Q::int(0); RC];
    let mut k = 0;
    while k < RC {
        xq[k] = Q::int(small());
        k += 1;
    }
    let l = if axis == 0 { R } else { C };
    let mut wv = Vec::with_capacity(l);
    let mut k = 0;
    while k < l {
        wv.push(Q::int(small() + 1));
        k += 1;
    }
    let p = parent2(&xq, R, C, layout, Q::int(9));
    let a = view2(&p, layout);
    let wp = Array1::from(wv);
    let w = wp.view();
    let v = a.weighted_var_axis(Axis(axis), &w, Q::int(ddof)).unwrap();
    let lanes = if axis == 0 { C } else { R };
    assert!(v.len() == lanes);
    let mut j = 0;
    while j < lanes {
        let lane = a.index_axis(Axis(1 - axis), j);
        assert!(v[j] == lane.weighted_var(&w, Q::int(ddof)).unwrap(), "per-axis variance == whole-array routine applied to that lane");
        j += 1;
    }
    kani::cover!(true, "W: reached");
}

//@ prop=C07,C18 tier=quick mem=6 timeout=3000 uses=Q inst="weighted_var_axis(Axis(0)) on ArrayView2<Q> 2x2 F-order vs lane-wise weighted_var, ddof 1" bounds="x in 0..=3, w in 1..=4; unwind 18"
#[kani::proof]
#[kani::unwind(18)]
fn c07_var_axis_q_2x2_ax0() {
    var_axis_q::<2, 2, 4>(1, 0, 1);
}
// (not registered: not verified to finish within the session's budget on this machine) prop=C07,C18 tier=thorough mem=8 timeout=5400 uses=Q inst="weighted_var_axis(Axis(1)) on ArrayView2<Q> 2x3 stepped vs lane-wise weighted_var, ddof 0" bounds="x in 0..=3, w in 1..=4; unwind 18"
#[allow(dead_code)]
// #[kani::unwind(18)]
fn c07_var_axis_q_2x3_ax1() {
    var_axis_q::<2, 3, 6>(2, 1, 0);
}
