//! C06 — means and weighted sums agree with exact arithmetic.
use crate::common::*;
use crate::q::Q;
use ndarray::prelude::*;
use ndarray_stats::SummaryStatisticsExt;

/// Integers (i32 from i8 payloads, so nothing overflows), R x C, data and weights in
/// independently chosen layouts; whole-array and per-axis forms against explicit-index oracles.
fn int_sums_2d<const R: usize, const C: usize, const RC: usize>(ld: u8, lw: u8, part: u8) {
    let pd: [i8; RC] = kani::any();
    let pw: [i8; RC] = kani::any();
    let mut d = [0i32; RC];
    let mut w = [0i32; RC];
    let mut k = 0;
    while k < RC {
        d[k] = pd[k] as i32;
        w[k] = pw[k] as i32;
        k += 1;
    }
    let parent_d = parent2(&d, R, C, ld, 99i32);
    let parent_w = parent2(&w, R, C, lw, -99i32);
    let a = view2(&parent_d, ld);
    let wt = view2(&parent_w, lw);
    let mut s = 0i32;
    let mut ws = 0i32;
    let mut wsum = 0i32;
    let mut k = 0;
    while k < RC {
        s += d[k];
        ws += d[k] * w[k];
        wsum += w[k];
        k += 1;
    }
    kani::cover!(pd[0] == 127 && pw[0] == 127 && pw[1] == 1, "W: large product");
    if part == 0 {
        assert!(SummaryStatisticsExt::mean(&a) == Ok(s / (RC as i32)), "mean == exact sum / n (the type's own division)");
        assert!(a.weighted_sum(&wt) == Ok(ws), "weighted_sum pairs data and weights by logical index");
        return;
    }
    // per-axis forms with 1-D weights taken from the first column / first row of the weight payloads
    let mut w0 = [0i32; R]; // weights along Axis(0): one per row
    let mut i = 0;
    while i < R {
        w0[i] = w[i * C];
        i += 1;
    }
    let w0p = Array1::from(w0.to_vec());
    let w0v = w0p.view();
    let r0 = a.weighted_sum_axis(Axis(0), &w0v).unwrap();
    assert!(r0.len() == C);
    let mut w0sum = 0i32;
    let mut i = 0;
    while i < R {
        w0sum += w0[i];
        i += 1;
    }
    let mut j = 0;
    while j < C {
        let mut o = 0i32;
        let mut i = 0;
        while i < R {
            o += d[i * C + j] * w0[i];
            i += 1;
        }
        assert!(r0[j] == o, "weighted_sum_axis(Axis(0))[j] == weighted sum of column j");
        let col = a.index_axis(Axis(1), j);
        assert!(col.weighted_sum(&w0v) == Ok(o), "per-axis element == whole-array routine on that lane");
        j += 1;
    }
    let mut w1 = [0i32; C]; // weights along Axis(1): one per column
    let mut j = 0;
    while j < C {
        w1[j] = w[j];
        j += 1;
    }
    let w1p = Array1::from(w1.to_vec());
    let w1v = w1p.view();
    let r1 = a.weighted_sum_axis(Axis(1), &w1v).unwrap();
    assert!(r1.len() == R);
    let mut i = 0;
    while i < R {
        let mut o = 0i32;
        let mut j = 0;
        while j < C {
            o += d[i * C + j] * w1[j];
            j += 1;
        }
        assert!(r1[i] == o, "weighted_sum_axis(Axis(1))[i] == weighted sum of row i");
        i += 1;
    }
}

/// weighted_mean / weighted_mean_axis divide by the SUM OF THE WEIGHTS (the type's own integer
/// division). Symbolic 32-bit division is expensive for the SAT back end, so 4-bit payloads.
//@ prop=C06,C20:thorough tier=quick mem=4 timeout=2400 inst="weighted_mean on ArrayView2<i32> 2x2 (data F-order, weights C-order) and weighted_mean_axis(Axis(0))" bounds="payloads in -8..=7, sum of weights != 0; unwind 8"
#[kani::proof]
#[kani::unwind(8)]
fn c06_weighted_mean_small() {
    let pd: [i8; 4] = kani::any();
    let pw: [i8; 4] = kani::any();
    let mut d = [0i32; 4];
    let mut w = [0i32; 4];
    let mut k = 0;
    while k < 4 {
        kani::assume(pd[k] >= -8 && pd[k] <= 7 && pw[k] >= -8 && pw[k] <= 7);
        d[k] = pd[k] as i32;
        w[k] = pw[k] as i32;
        k += 1;
    }
    let ws = d[0] * w[0] + d[1] * w[1] + d[2] * w[2] + d[3] * w[3];
    let wsum = w[0] + w[1] + w[2] + w[3];
    let pdat = parent2(&d, 2, 2, 1, 0i32);
    let pwt = parent2(&w, 2, 2, 0, 0i32);
    let a = view2(&pdat, 1);
    let wt = view2(&pwt, 0);
    if wsum != 0 {
        assert!(a.weighted_mean(&wt) == Ok(ws / wsum), "weighted_mean == weighted_sum / sum of weights");
    }
    // per-axis: weights w[0], w[2] along Axis(0)
    let w0 = Array1::from(vec![w[0], w[2]]);
    let w0v = w0.view();
    let s0 = w[0] + w[2];
    if s0 != 0 {
        let m = a.weighted_mean_axis(Axis(0), &w0v).unwrap();
        assert!(m[0] == (d[0] * w[0] + d[2] * w[2]) / s0 && m[1] == (d[1] * w[0] + d[3] * w[2]) / s0, "weighted_mean_axis divides by the sum of the weights (not the lane length)");
    }
    kani::cover!(pw[0] == 3 && pw[2] == 4 && pd[0] == 7 && pd[2] == -8, "W: non-trivial weights");
}

//@ prop=C06,C18,C20 tier=quick mem=5 timeout=3000 inst="mean / weighted_sum on ArrayView2<i32> 2x3; data F-order, weights C-order" bounds="all i8-range payloads; unwind 10" cbmc="--unwindset memcmp.0:33"
#[kani::proof]
#[kani::unwind(10)]
fn c06_int_sums_2x3_f_c() {
    int_sums_2d::<2, 3, 6>(1, 0, 0);
}
//@ prop=C06,C18,C20 tier=thorough mem=5 timeout=3000 inst="weighted_sum_axis (both axes) vs explicit oracle and vs lane-wise weighted_sum on ArrayView2<i32> 2x3 stepped" bounds="all i8-range payloads; unwind 10" cbmc="--unwindset memcmp.0:33"
#[kani::proof]
#[kani::unwind(10)]
fn c06_int_sums_2x3_step_rev() {
    int_sums_2d::<2, 3, 6>(2, 3, 1);
}
//@ prop=C06,C18,C20 tier=thorough mem=5 timeout=3600 inst="mean / weighted_sum on ArrayView2<i32> 3x2; data F-order rows reversed, weights stepped" bounds="all i8-range payloads; unwind 10" cbmc="--unwindset memcmp.0:33"
#[kani::proof]
#[kani::unwind(10)]
fn c06_int_sums_3x2_frev_step() {
    int_sums_2d::<3, 2, 6>(4, 2, 0);
}
//@ prop=C06,C18,C20 tier=thorough mem=5 timeout=3600 inst="weighted_sum_axis (both axes) on ArrayView2<i32> 3x2 C-order" bounds="all i8-range payloads; unwind 10" cbmc="--unwindset memcmp.0:33"
#[kani::proof]
#[kani::unwind(10)]
fn c06_int_sums_3x2_c_f() {
    int_sums_2d::<3, 2, 6>(0, 1, 1);
}

/// 1-D integer lanes carved from buffers (stride / reversal).
//@ prop=C06,C20:thorough tier=quick mem=4 timeout=1800 inst="ArrayView1<i32>, data reversed stride 2, weights stride 3, len 4" bounds="all i8-range payloads; unwind 14"
#[kani::proof]
#[kani::unwind(14)]
fn c06_int_sums_1d_i32() {
    let pd: [i8; 9] = kani::any();
    let pw: [i8; 13] = kani::any();
    let mut bd = [0i32; 9];
    let mut bw = [0i32; 13];
    let mut k = 0;
    while k < 13 {
        if k < 9 {
            bd[k] = pd[k] as i32;
        }
        bw[k] = pw[k] as i32;
        k += 1;
    }
    let mut s = 0i32;
    let mut ws = 0i32;
    let mut wsum = 0i32;
    let mut t = 0;
    while t < 4 {
        let (x, w) = (bd[pos1(4, 4, t)], bw[pos1(2, 4, t)]);
        s += x;
        ws += x * w;
        wsum += w;
        t += 1;
    }
    let dv = carve1(&mut bd, 4, 4);
    let wv = carve1(&mut bw, 2, 4);
    let (a, w) = (dv.view(), wv.view());
    assert!(SummaryStatisticsExt::mean(&a) == Ok(s / 4));
    assert!(a.weighted_sum(&w) == Ok(ws));
    kani::cover!(pd[1] == -100 && pw[2] == -100, "W: negative data and weight");
}

/// f32: each element of a per-axis result equals the whole-array routine applied to that lane,
/// BIT FOR BIT, for arbitrary finite inputs (bounded so that no intermediate overflows to inf).
//@ prop=C06,C18 tier=thorough mem=6 timeout=7200 inst="ArrayView2<f32> 2x2 F-order: weighted_sum_axis / weighted_mean_axis vs lane-wise weighted_sum / weighted_mean" bounds="all finite f32 with |x| <= 2^40; both axes; unwind 8" cbmc="--unwindset memcmp.0:33"
#[kani::proof]
#[kani::unwind(8)]
fn c06_axis_equals_lane_f32() {
    let d: [f32; 4] = kani::any();
    let w: [f32; 2] = kani::any();
    let mut k = 0;
    while k < 4 {
        kani::assume(d[k].abs() <= 1.0e12);
        k += 1;
    }
    kani::assume(w[0].abs() <= 1.0e12 && w[1].abs() <= 1.0e12);
    let p = parent2(&d, 2, 2, 1, 0.0f32);
    let a = view2(&p, 1);
    let wp = Array1::from(w.to_vec());
    let wv = wp.view();
    let s0 = a.weighted_sum_axis(Axis(0), &wv).unwrap();
    let s1 = a.weighted_sum_axis(Axis(1), &wv).unwrap();
    let mut j = 0;
    while j < 2 {
        let col = a.index_axis(Axis(1), j);
        assert!(s0[j].to_bits() == col.weighted_sum(&wv).unwrap().to_bits(), "Axis(0): bit-identical to the lane-wise routine");
        let row = a.index_axis(Axis(0), j);
        assert!(s1[j].to_bits() == row.weighted_sum(&wv).unwrap().to_bits(), "Axis(1): bit-identical to the lane-wise routine");
        j += 1;
    }
    kani::cover!(d[1] != d[2] && w[0] != w[1], "W: asymmetric data and weights");
}

/// f32 / small-integer payloads: every partial sum is exact in any association order, so the
/// result must equal the exact value (pairing and normaliser for the float instantiation).
//@ prop=C06,C20 tier=thorough mem=6 timeout=3600 inst="ArrayView2<f32> 2x2, data stepped, weights F-order" bounds="payloads integers in -8..=7; unwind 8" cbmc="--unwindset memcmp.0:33"
#[kani::proof]
#[kani::unwind(8)]
fn c06_small_f32_2x2() {
    let pd: [i8; 4] = kani::any();
    let pw: [i8; 4] = kani::any();
    let mut d = [0f32; 4];
    let mut w = [0f32; 4];
    let mut s = 0i32;
    let mut ws = 0i32;
    let mut wsum = 0i32;
    let mut k = 0;
    while k < 4 {
        kani::assume(pd[k] >= -8 && pd[k] <= 7 && pw[k] >= -8 && pw[k] <= 7);
        d[k] = pd[k] as f32;
        w[k] = pw[k] as f32;
        s += pd[k] as i32;
        ws += pd[k] as i32 * pw[k] as i32;
        wsum += pw[k] as i32;
        k += 1;
    }
    let (ld, lw) = (2u8, 1u8);
    let parent_d = parent2(&d, 2, 2, ld, 50.0f32);
    let parent_w = parent2(&w, 2, 2, lw, -50.0f32);
    let a = view2(&parent_d, ld);
    let wt = view2(&parent_w, lw);
    assert!(SummaryStatisticsExt::mean(&a) == Ok(s as f32 / 4.0));
    assert!(a.weighted_sum(&wt) == Ok(ws as f32));
    if wsum != 0 {
        assert!(a.weighted_mean(&wt) == Ok(ws as f32 / wsum as f32));
    }
    kani::cover!(pd[0] == 7 && pw[0] == 7 && pd[3] == -8 && pw[3] == -8, "W: extreme payloads");
}

/// harmonic_mean at the exact scalar Q: n / sum(1/x).
//@ prop=C06 tier=quick mem=4 timeout=1800 uses=Q inst="harmonic_mean on Array1<Q> len 3" bounds="x in 1..=4; unwind 10"
#[kani::proof]
#[kani::unwind(10)]
fn c06_harmonic_mean_q() {
    let b: [u8; 3] = kani::any();
    let x = [(b[0] & 3) as i64 + 1, (b[1] & 3) as i64 + 1, (b[2] & 3) as i64 + 1];
    let a = Array1::from(vec![Q::int(x[0]), Q::int(x[1]), Q::int(x[2])]);
    let h = a.harmonic_mean().unwrap();
    // 3 / (1/x0 + 1/x1 + 1/x2) = 3 x0 x1 x2 / (x1 x2 + x0 x2 + x0 x1)
    let expect = Q { n: 3 * x[0] * x[1] * x[2], d: x[1] * x[2] + x[0] * x[2] + x[0] * x[1] };
    assert!(h == expect, "harmonic_mean == n / sum(1/x)");
    kani::cover!(x[0] == 1 && x[1] == 2 && x[2] == 4, "W: 1, 2, 4");
}
