//! C10 — entropy, cross-entropy and KL divergence follow their definitions (decided at the exact
//! scalar Q with ln tabulated on powers of two; CBMC has no faithful model of the real logarithm).
use crate::common::*;
use crate::q::Q;
use ndarray::prelude::*;
use ndarray_stats::EntropyExt;
use num_traits::Float;

/// one of 0, 1/4, 1/2, 1, 2, NaN
fn prob() -> Q {
    let b: u8 = kani::any();
    match b & 7 {
        0 | 6 | 7 => Q::int(0),
        1 => Q { n: 1, d: 4 },
        2 => Q { n: 1, d: 2 },
        3 => Q::int(1),
        4 => Q::int(2),
        _ => Q::NAN,
    }
}
fn term(p: Q, l: Q) -> Q {
    if p == Q::int(0) {
        Q::int(0)
    } else {
        p * l
    }
}
fn same(a: Q, b: Q) -> bool {
    (a.is_nanq() && b.is_nanq()) || a == b
}

//@ prop=C10 tier=quick mem=3 timeout=1800 uses=Q inst="entropy on Array1<Q> len 3" bounds="x_i in {0, 1/4, 1/2, 1, 2, NaN}; unwind 20"
#[kani::proof]
#[kani::unwind(20)]
fn c10_entropy_q_n3() {
    let x = [prob(), prob(), prob()];
    let a = Array1::from(x.to_vec());
    let e = a.entropy().unwrap();
    let expect = -(term(x[0], x[0].ln()) + term(x[1], x[1].ln()) + term(x[2], x[2].ln()));
    assert!(same(e, expect), "entropy == -sum x ln x with zero terms contributing exactly zero");
    let any_nan = x[0].is_nanq() || x[1].is_nanq() || x[2].is_nanq();
    assert!(any_nan == e.is_nanq(), "NaN in a contributing term <=> NaN result");
    kani::cover!(x[0] == Q { n: 1, d: 2 } && x[1] == Q { n: 1, d: 2 } && x[2] == Q::int(0), "W: 1/2, 1/2, 0");
}

/// cross_entropy / kl_divergence on 2x2 with p and q in different layouts.
fn two_arg_q(lp: u8, lq: u8, kl: bool) {
    let p = [prob(), prob(), prob(), prob()];
    let q = [prob(), prob(), prob(), prob()];
    let pp = parent2(&p, 2, 2, lp, Q::int(9));
    let qp = parent2(&q, 2, 2, lq, Q::int(9));
    let pa = view2(&pp, lp);
    let qa = view2(&qp, lq);
    let mut acc = Q::int(0);
    let mut k = 0;
    while k < 4 {
        let t = if kl {
            if p[k] == Q::int(0) {
                Q::int(0)
            } else {
                // a zero q under a non-zero p: ln(0/p) = ln 0 = -inf
                p[k] * (q[k] / p[k]).ln()
            }
        } else {
            term(p[k], q[k].ln())
        };
        acc = acc + t;
        k += 1;
    }
    let r = if kl { pa.kl_divergence(&qa).unwrap() } else { pa.cross_entropy(&qa).unwrap() };
    assert!(same(r, -acc), "== -sum over logical index pairs; zero p_i contributes exactly zero whatever q_i is");
    if kl {
        let z = pa.kl_divergence(&pa).unwrap();
        let pnan = p[0].is_nanq() || p[1].is_nanq() || p[2].is_nanq() || p[3].is_nanq();
        assert!(pnan || z == Q::int(0), "KL(p, p) == 0");
    }
    kani::cover!(p[1] == Q::int(0) && q[1].is_nanq() && p[0] == Q::int(1) && q[0] == Q::int(1), "W: NaN in q under a zero p");
    kani::cover!(p[0] == Q { n: 1, d: 2 } && q[0] == Q { n: 1, d: 4 } && p[3] == Q::int(2) && q[3] == Q::int(1), "W: non-trivial entries");
}

//@ prop=C10,C20 tier=quick mem=6 timeout=2400 uses=Q inst="cross_entropy on ArrayView2<Q> 2x2, p C-order, q F-order" bounds="entries in {0, 1/4, 1/2, 1, 2, NaN}; unwind 20"
#[kani::proof]
#[kani::unwind(20)]
fn c10_cross_entropy_q_c_f() {
    two_arg_q(0, 1, false);
}
//@ prop=C10,C20:thorough tier=quick mem=6 timeout=2400 uses=Q inst="kl_divergence on ArrayView2<Q> 2x2, p stepped, q both axes reversed" bounds="p entries in {0, 1/4, 1/2, 1, 2, NaN}, q likewise; unwind 20"
#[kani::proof]
#[kani::unwind(20)]
fn c10_kl_q_step_rev() {
    two_arg_q(2, 3, true);
}
//@ prop=C10,C20 tier=thorough mem=6 timeout=3600 uses=Q inst="cross_entropy on ArrayView2<Q> 2x2, p F-order rows reversed, q stepped" bounds="entries in {0, 1/4, 1/2, 1, 2, NaN}; unwind 20"
#[kani::proof]
#[kani::unwind(20)]
fn c10_cross_entropy_q_frev_step() {
    two_arg_q(4, 2, false);
}
//@ prop=C10,C20 tier=thorough mem=6 timeout=3600 uses=Q inst="kl_divergence on ArrayView2<Q> 2x2, p F-order, q C-order" bounds="entries in {0, 1/4, 1/2, 1, 2, NaN}; unwind 20"
#[kani::proof]
#[kani::unwind(20)]
fn c10_kl_q_f_c() {
    two_arg_q(1, 0, true);
}

/// At f64, independent of the value of ln: NaN propagation and the zero branch.
//@ prop=C10 tier=quick mem=4 timeout=1800 inst="entropy / cross_entropy on Array1<f64> len 2 (CBMC's ln is an over-approximation: only ln-independent facts asserted)" bounds="x in [0, 4] or NaN; unwind 8"
#[kani::proof]
#[kani::unwind(8)]
fn c10_f64_nan_and_zero() {
    let x: [f64; 2] = kani::any();
    kani::assume((x[0] >= 0.0 && x[0] <= 4.0) || x[0] != x[0]);
    kani::assume((x[1] >= 0.0 && x[1] <= 4.0) || x[1] != x[1]);
    let a = Array1::from(x.to_vec());
    let e = a.entropy().unwrap();
    let any_nan = x[0] != x[0] || x[1] != x[1];
    if any_nan {
        assert!(e != e, "a NaN entry makes the entropy NaN");
    }
    if x[0] == 0.0 && x[1] == 0.0 {
        assert!(e == 0.0, "all-zero input: every term contributes exactly zero");
    }
    let z = Array1::from(vec![0.0f64, 0.0]);
    let h = z.cross_entropy(&a).unwrap();
    assert!(h == 0.0, "zero p: cross entropy exactly zero whatever q holds (NaN included)");
    kani::cover!(any_nan, "W: NaN input");
    kani::cover!(x[0] == 0.0 && x[1] == 0.0, "W: all zero");
}
