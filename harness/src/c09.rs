//! C09 — deviation measures are exact counts and distances, paired by logical index.
use crate::common::*;
use ndarray::prelude::*;
use ndarray::{ArcArray, CowArray};
use ndarray_stats::DeviationExt;

/// i32 operands built from i8 payloads (no overflow possible), R x C, the two operands in
/// independently chosen layouts.
fn deviation_i32_2d<const R: usize, const C: usize, const RC: usize>(la: u8, lb: u8) {
    let pa: [i8; RC] = kani::any();
    let pb: [i8; RC] = kani::any();
    let mut va = [0i32; RC];
    let mut vb = [0i32; RC];
    let mut k = 0;
    while k < RC {
        va[k] = pa[k] as i32;
        vb[k] = pb[k] as i32;
        k += 1;
    }
    let parent_a = parent2(&va, R, C, la, 77i32);
    let parent_b = parent2(&vb, R, C, lb, -77i32);
    let a = view2(&parent_a, la);
    let b = view2(&parent_b, lb);
    // oracle by logical index
    let mut eq = 0usize;
    let mut l1 = 0i32;
    let mut sq = 0i32;
    let mut linf = 0i32;
    let mut k = 0;
    while k < RC {
        let d = va[k] - vb[k];
        let ad = if d < 0 { -d } else { d };
        if d == 0 {
            eq += 1;
        }
        l1 += ad;
        sq += d * d;
        if ad > linf {
            linf = ad;
        }
        k += 1;
    }
    assert!(a.count_eq(&b) == Ok(eq), "count_eq counts index positions holding equal elements");
    assert!(a.count_neq(&b) == Ok(RC - eq), "count_eq + count_neq == number of elements");
    assert!(a.sq_l2_dist(&b) == Ok(sq), "sq_l2_dist == sum (a-b)^2");
    assert!(a.l1_dist(&b) == Ok(l1), "l1_dist == sum |a-b|");
    assert!(a.linf_dist(&b) == Ok(linf), "linf_dist == max |a-b|");
    // symmetry and zero on identical arguments
    assert!(b.l1_dist(&a) == Ok(l1) && b.sq_l2_dist(&a) == Ok(sq) && b.linf_dist(&a) == Ok(linf) && b.count_eq(&a) == Ok(eq));
    assert!(a.l1_dist(&a) == Ok(0) && a.linf_dist(&a) == Ok(0) && a.count_eq(&a) == Ok(RC));
    // covers constrain inputs only (a cover over results costs a full SAT call each)
    kani::cover!(pa[0] == pb[0] && pa[1] != pb[1] && pa[RC - 1] == 127 && pb[RC - 1] == -128, "W: one equal position, extreme distance at the last");
    kani::cover!(pa[0] == pb[RC - 1] && pa[0] != pb[0], "W: a[first] == b[last] but not b[first]");
}

// Layouts are CONCRETE per harness: a symbolic layout selector merges the strides into
// if-then-else terms and every index computation becomes a symbolic multiplication (measured:
// > 24 min for 16 layout pairs in one harness against ~2-4 min per concrete pair).
macro_rules! c09_pair {
    ($name:ident, $r:expr, $c:expr, $rc:expr, $la:expr, $lb:expr, $unw:expr) => {
        #[kani::proof]
        #[kani::unwind($unw)]
        fn $name() {
            deviation_i32_2d::<$r, $c, $rc>($la, $lb);
        }
    };
}
//@ prop=C09,C20 tier=quick mem=4 timeout=2400 inst="ArrayView2<i32> 2x3, a C-order vs b F-order" bounds="all i8-range payloads; unwind 10" cbmc="--unwindset memcmp.0:33"
c09_pair!(c09_dev_i32_2x3_c_f, 2, 3, 6, 0, 1, 10);
//@ prop=C09,C20:thorough tier=quick mem=4 timeout=2400 inst="ArrayView2<i32> 2x3, a stepped (5x7 parent) vs b both axes reversed" bounds="all i8-range payloads; unwind 10" cbmc="--unwindset memcmp.0:33"
c09_pair!(c09_dev_i32_2x3_step_rev, 2, 3, 6, 2, 3, 10);
//@ prop=C09,C20:thorough tier=quick mem=4 timeout=2400 inst="ArrayView2<i32> 2x2, a F-order vs b F-order rows reversed" bounds="all i8-range payloads; unwind 8" cbmc="--unwindset memcmp.0:33"
c09_pair!(c09_dev_i32_2x2_f_frev, 2, 2, 4, 1, 4, 8);
//@ prop=C09,C20 tier=thorough mem=4 timeout=3600 inst="ArrayView2<i32> 3x2, a F-order vs b stepped" bounds="all i8-range payloads; unwind 10" cbmc="--unwindset memcmp.0:33"
c09_pair!(c09_dev_i32_3x2_f_step, 3, 2, 6, 1, 2, 10);
//@ prop=C09,C20 tier=thorough mem=4 timeout=3600 inst="ArrayView2<i32> 3x2, a reversed vs b C-order" bounds="all i8-range payloads; unwind 10" cbmc="--unwindset memcmp.0:33"
c09_pair!(c09_dev_i32_3x2_rev_c, 3, 2, 6, 3, 0, 10);
//@ prop=C09,C20 tier=thorough mem=4 timeout=3600 inst="ArrayView2<i32> 2x3, a F-order rows reversed vs b stepped" bounds="all i8-range payloads; unwind 10" cbmc="--unwindset memcmp.0:33"
c09_pair!(c09_dev_i32_2x3_frev_step, 2, 3, 6, 4, 2, 10);
//@ prop=C09,C20 tier=thorough mem=4 timeout=3600 inst="ArrayView2<i32> 2x3, a C-order vs b C-order (control)" bounds="all i8-range payloads; unwind 10" cbmc="--unwindset memcmp.0:33"
c09_pair!(c09_dev_i32_2x3_c_c, 2, 3, 6, 0, 0, 10);

/// The f64-valued routines are the documented functions of the integer results. Small 1-D
/// operands (stride 2 vs reversed). CBMC's sqrt model is accurate to an ulp only (and is not a
/// function), and a float multiplication in the oracle (r * r) made the SAT problem time out, so the
/// sqrt forms are pinned to the integer bracket [k, k+1) with k = floor(sqrt(v)) found by an integer
/// loop (4-bit payloads keep that loop short); the division forms are bit-exact.
//@ prop=C09 tier=quick mem=4 timeout=2400 inst="l2_dist / mean_abs_err / mean_sq_err / root_mean_sq_err on ArrayView1<i32> len 3 (stride 2 vs reversed)" bounds="payloads in -8..=7; unwind 34"
#[kani::proof]
#[kani::unwind(34)]
fn c09_float_forms_i32_l3() {
    let pa: [i8; 7] = kani::any();
    let pb: [i8; 3] = kani::any();
    let mut ba = [0i32; 7];
    let mut bb = [0i32; 3];
    let mut k = 0;
    while k < 7 {
        kani::assume(pa[k] >= -8 && pa[k] <= 7);
        ba[k] = pa[k] as i32;
        if k < 3 {
            kani::assume(pb[k] >= -8 && pb[k] <= 7);
            bb[k] = pb[k] as i32;
        }
        k += 1;
    }
    let mut l1 = 0i32;
    let mut sq = 0i32;
    let mut t = 0;
    while t < 3 {
        let d = ba[pos1(1, 3, t)] - bb[pos1(3, 3, t)];
        l1 += if d < 0 { -d } else { d };
        sq += d * d;
        t += 1;
    }
    let av = carve1(&mut ba, 1, 3);
    let bv = carve1(&mut bb, 3, 3);
    let (a, b) = (av.view(), bv.view());
    assert!(a.mean_abs_err(&b) == Ok(l1 as f64 / 3.0), "mean_abs_err == l1 / n");
    assert!(a.mean_sq_err(&b) == Ok(sq as f64 / 3.0), "mean_sq_err == sq_l2 / n");
    // k = floor(sqrt(sq)), k3 = floor(sqrt(sq / 3)); sq <= 3 * 15^2 = 675
    let mut kk = 0i32;
    while (kk + 1) * (kk + 1) <= sq {
        kk += 1;
    }
    let mut k3 = 0i32;
    while 3 * (k3 + 1) * (k3 + 1) <= sq {
        k3 += 1;
    }
    let l2 = a.l2_dist(&b).unwrap();
    assert!(l2 + 1.0e-9 >= kk as f64 && l2 < (kk + 1) as f64, "l2_dist lies in [floor(sqrt(sq)), floor(sqrt(sq)) + 1)");
    let rmse = a.root_mean_sq_err(&b).unwrap();
    assert!(rmse + 1.0e-9 >= k3 as f64 && rmse < (k3 + 1) as f64, "rmse lies in [floor(sqrt(mse)), floor(sqrt(mse)) + 1)");
    kani::cover!(pa[1] == 7 && pb[2] == -8, "W: large difference at the first logical position");
}

/// Ownership kinds: shared (ArcArray) vs copy-on-write view vs owned, 1-D.
//@ prop=C09,C20:thorough tier=quick mem=4 timeout=1800 inst="ArcArray1<i32> vs CowArray<i32> (view of a reversed stride-2 lane) vs Array1" bounds="len 3, i8-range payloads; unwind 8"
#[kani::proof]
#[kani::unwind(8)]
fn c09_deviation_ownership_i32() {
    let pa: [i8; 3] = kani::any();
    let pb: [i8; 7] = kani::any();
    let va = [pa[0] as i32, pa[1] as i32, pa[2] as i32];
    let mut bufb = [0i32; 7];
    let mut k = 0;
    while k < 7 {
        bufb[k] = pb[k] as i32;
        k += 1;
    }
    let vb = [bufb[pos1(4, 3, 0)], bufb[pos1(4, 3, 1)], bufb[pos1(4, 3, 2)]];
    let a: ArcArray<i32, Ix1> = Array1::from(va.to_vec()).into_shared();
    let a2 = a.clone(); // shared storage
    let bview = carve1(&mut bufb, 4, 3);
    let b: CowArray<'_, i32, Ix1> = CowArray::from(bview.view());
    let mut eq = 0usize;
    let mut l1 = 0i32;
    let mut sq = 0i32;
    let mut linf = 0i32;
    let mut k = 0;
    while k < 3 {
        let d = va[k] - vb[k];
        let ad = if d < 0 { -d } else { d };
        if d == 0 {
            eq += 1;
        }
        l1 += ad;
        sq += d * d;
        if ad > linf {
            linf = ad;
        }
        k += 1;
    }
    assert!(a.count_eq(&b) == Ok(eq) && b.count_eq(&a2) == Ok(eq));
    assert!(a.l1_dist(&b) == Ok(l1) && b.l1_dist(&a) == Ok(l1));
    assert!(a2.sq_l2_dist(&b) == Ok(sq) && a.linf_dist(&b) == Ok(linf));
    let owned = b.to_owned();
    assert!(a.l1_dist(&owned) == Ok(l1) && owned.count_neq(&a) == Ok(3 - eq));
    kani::cover!(pa[0] == 127 && pb[5] == -128, "W: extreme distance at the first logical position");
}

/// f32 with small-integer payloads (every partial sum exact): exact results expected; and with
/// unconstrained finite values: exact symmetry of linf_dist / count_eq (no rounding involved).
//@ prop=C09,C20:thorough tier=quick mem=6 timeout=2400 inst="ArrayView2<f32> 2x2, a stepped, b reversed" bounds="payloads: integers in -8..=7 (exact sums); unwind 8" cbmc="--unwindset memcmp.0:33"
#[kani::proof]
#[kani::unwind(8)]
fn c09_deviation_f32_small_2x2() {
    let pa: [i8; 4] = kani::any();
    let pb: [i8; 4] = kani::any();
    let mut va = [0f32; 4];
    let mut vb = [0f32; 4];
    let mut k = 0;
    while k < 4 {
        kani::assume(pa[k] >= -8 && pa[k] <= 7 && pb[k] >= -8 && pb[k] <= 7);
        va[k] = pa[k] as f32;
        vb[k] = pb[k] as f32;
        k += 1;
    }
    let (la, lb) = (2u8, 3u8);
    let parent_a = parent2(&va, 2, 2, la, 50.0f32);
    let parent_b = parent2(&vb, 2, 2, lb, -50.0f32);
    let a = view2(&parent_a, la);
    let b = view2(&parent_b, lb);
    let mut eq = 0usize;
    let mut l1 = 0i32;
    let mut sq = 0i32;
    let mut linf = 0i32;
    let mut k = 0;
    while k < 4 {
        let d = pa[k] as i32 - pb[k] as i32;
        let ad = if d < 0 { -d } else { d };
        if d == 0 {
            eq += 1;
        }
        l1 += ad;
        sq += d * d;
        if ad > linf {
            linf = ad;
        }
        k += 1;
    }
    assert!(a.count_eq(&b) == Ok(eq));
    assert!(a.l1_dist(&b) == Ok(l1 as f32));
    assert!(a.sq_l2_dist(&b) == Ok(sq as f32));
    assert!(a.linf_dist(&b) == Ok(linf as f32));
    assert!(b.l1_dist(&a) == Ok(l1 as f32) && b.linf_dist(&a) == Ok(linf as f32));
    kani::cover!(pa[0] == 7 && pb[0] == -8 && pa[3] == pb[3], "W: extreme first pair, equal last pair");
}

/// 3-D [2,1,2] with permuted axes on one operand.
// (not registered: not verified to finish within the session's budget on this machine) prop=C09,C20 tier=thorough mem=8 timeout=5400 inst="ArrayView3<i32> [2,1,2]: standard vs permuted-back view of a [2,2,1] parent" bounds="all i8-range payloads; unwind 8" cbmc="--unwindset memcmp.0:33"
#[allow(dead_code)]
// #[kani::unwind(8)]
fn c09_deviation_i32_3d() {
    let pa: [i8; 4] = kani::any();
    let pb: [i8; 4] = kani::any();
    let va = [pa[0] as i32, pa[1] as i32, pa[2] as i32, pa[3] as i32];
    let vb = [pb[0] as i32, pb[1] as i32, pb[2] as i32, pb[3] as i32];
    // a: logical [2,1,2], element (i,0,k) = va[2i+k]
    let a = Array3::from_shape_vec((2, 1, 2), va.to_vec()).unwrap();
    // b stored as [2(k),2(i),1] with (k,i,0) = vb[2i+k]; permute to logical [i,0,k]
    let bp = Array3::from_shape_fn((2, 2, 1), |(k, i, _)| vb[2 * i + k]);
    let b = bp.view().permuted_axes([1, 2, 0]);
    let mut eq = 0usize;
    let mut l1 = 0i32;
    let mut k = 0;
    while k < 4 {
        let d = va[k] - vb[k];
        if d == 0 {
            eq += 1;
        }
        l1 += if d < 0 { -d } else { d };
        k += 1;
    }
    assert!(a.count_eq(&b) == Ok(eq) && a.l1_dist(&b) == Ok(l1) && b.l1_dist(&a) == Ok(l1));
    let ad = a.clone().into_dyn();
    let bd = b.into_dyn();
    assert!(ad.count_eq(&bd) == Ok(eq) && ad.l1_dist(&bd) == Ok(l1));
    kani::cover!(pa[0] == pb[0] && pa[1] == pb[1] && pa[2] == pb[2] && pa[3] != pb[3], "W: three equal positions");
}
