#!/usr/bin/env python3
import json, glob, os
ROOT = os.path.dirname(os.path.abspath(__file__))
print("| seed | property | needs, in order to manifest | caught by (tier) | how reported |")
print("|---|---|---|---|---|")
for f in sorted(glob.glob(os.path.join(ROOT, "seeded", "*", "meta.json"))):
    m = json.load(open(f))
    hs, how = [], []
    for r in m["results"]:
        for v in r["violations"]:
            h = os.path.basename(v["replay"]).replace(".rs", "").replace(".unreplayed.txt", "")
            if h not in hs:
                hs.append(h)
                how.append("UNREPLAYED (solver verdict)" if v["replay"].endswith(".txt") else "replayed natively")
    tier = ""
    for c in m["checks_run"]:
        tier = "thorough" if "thorough" in c["cmd"] else "quick"
    print("| %s | %s | %s | %s | %s |" % (m["seed"], m["breaks_property"], m["needs_to_manifest"].split(":")[0][:110], (", ".join("`%s`" % h for h in hs) + " (%s)" % tier) if hs else "**not detected**", "; ".join(sorted(set(how))) if hs else "-"))
