#!/usr/bin/env python3
"""Writes seeded/<name>/meta.json from the logs that seedtest.sh left there."""
import json, os, re, sys, glob
ROOT = os.path.dirname(os.path.abspath(__file__))
NEEDS = json.load(open(os.path.join(ROOT, "seeded", "needs.json"))) if os.path.exists(os.path.join(ROOT, "seeded", "needs.json")) else {}
for d in sorted(glob.glob(os.path.join(ROOT, "seeded", "*"))):
    if not os.path.isdir(d):
        continue
    name = os.path.basename(d)
    prop = name.split("-")[0]
    conf = open(os.path.join(d, "confirm.txt")).read() if os.path.exists(os.path.join(d, "confirm.txt")) else ""
    m = re.search(r"demo_with_change_rc=(\d+) suite_with_change_rc=(\d+) demo_without_change_rc=(\d+)", conf)
    runs = []
    for log in sorted(glob.glob(os.path.join(d, "check_*.log"))):
        txt = open(log, errors="replace").read()
        viol = re.findall(r"VIOLATION property=(\S+) replay=(\S+)", txt)
        summ = re.findall(r"^(C\d+ \w+: \d+ harnesses.*)$", txt, re.M)
        fails = re.findall(r"^FAILED (\S+): (.*)$", txt, re.M)
        runs.append({"log": os.path.relpath(log, ROOT), "violations": [{"property": p, "replay": r} for p, r in viol],
                     "failed_harnesses": [{"harness": h.rstrip(":"), "first_failed_check": c[:200]} for h, c in fails], "summary": summ[-1] if summ else ""})
    cmds = re.findall(r"^check (.*) rc=(\d+)$", conf, re.M)
    meta = {
        "seed": name, "breaks_property": prop,
        "needs_to_manifest": NEEDS.get(name, "see agent_README.md"),
        "source": "independent sub-agent given only the property text and a scratch worktree of /repo (see agent_README.md)",
        "confirmed": {"existing_suite_passes_with_change": bool(m and m.group(2) == "0"), "demo_fails_with_change": bool(m and m.group(1) != "0"), "demo_passes_without_change": bool(m and m.group(3) == "0"),
                      "how": "seedtest.sh in the scratch worktree: cargo test --offline --test seed_demo (with change), cargo test --offline --no-fail-fast (suite, demo moved aside), git apply -R && cargo test --test seed_demo (without change)"},
        "checks_run": [{"cmd": "VERIF_REPO=<worktree with the change applied> ./check " + c, "exit": int(rc)} for c, rc in cmds],
        "results": runs,
        "detected": any(r["violations"] for r in runs),
    }
    json.dump(meta, open(os.path.join(d, "meta.json"), "w"), indent=1)
    print(name, "detected" if meta["detected"] else "NOT detected", [c for c, _ in cmds])
