#!/usr/bin/env python3
"""Regenerates MANIFEST.json from the table below + the harness specs (./check --list)."""
import json, os, subprocess, sys, importlib.util, importlib.machinery
ROOT = os.path.dirname(os.path.abspath(__file__))
spec = importlib.util.spec_from_loader("check", importlib.machinery.SourceFileLoader("check", os.path.join(ROOT, "check")))
check = importlib.util.module_from_spec(spec); spec.loader.exec_module(check)
specs = check.parse_specs()

# property -> (design_ref, level text, level_note)
CLAIMS = json.load(open(os.path.join(ROOT, "claims.json")))
props = [json.loads(l) for l in open(os.path.join(ROOT, "properties.jsonl"))]
hook_commits = subprocess.run(["git", "-C", "/repo", "log", "--format=%h %s", "--grep=^verif hook"], stdout=subprocess.PIPE, text=True).stdout.strip().split("\n")
checks, na = [], []
for p in props:
    pid = p["id"]
    hs = [s for s in specs.values() if pid in s["prop"]]
    c = CLAIMS.get(pid)
    if not hs or not c or c.get("not_applicable"):
        na.append({"property_id": pid, "reason": (c or {}).get("not_applicable", "check under construction (no harness committed yet)")})
        continue
    checks.append({
        "property_id": pid,
        "quick_cmd": "./check %s --tier quick" % pid,
        "thorough_cmd": "./check %s --tier thorough" % pid,
        "evidence_file": "/verif/evidence/%s.json" % pid,
        "replay_cmd_template": "./check %s --replay {path}" % pid,
        "engine": "kani-cbmc",
        "level_claimed": {"category": "model_checking", "text": c["text"], "design_ref": c.get("design_ref", "DESIGN.md §4 " + pid)},
        "level_note": c["note"],
        "technique": c.get("technique", "bounded model checking of the compiled crate (Kani 0.68 -> CBMC 6.11 -> CaDiCaL): symbolic inputs, unwinding assertions on, SAT verdict; counterexamples replayed natively"),
    })
m = {
    "version": 1,
    "setup_cmd": "./check --setup",
    "hooks": {
        "guard": "--cfg rust_ndarray_ndarray_stats_verif (plus --cfg rust_ndarray_ndarray_stats_verif_modelmap for the IndexMap model)",
        "enable": "RUSTFLAGS='--cfg rust_ndarray_ndarray_stats_verif [--cfg rust_ndarray_ndarray_stats_verif_modelmap]' cargo kani (set per harness by ./check)",
        "baseline_off_cmd": "cd /repo && cargo test --workspace --no-fail-fast --offline",
        "source_commits": [h.split()[0] for h in hook_commits if h],
        "add_only": True,
    },
    "engines": [{"name": "kani-cbmc", "path": "/verif/check", "serves_properties": [c["property_id"] for c in checks],
                 "kind_free_text": "python driver running one `cargo kani` proof harness per instantiation (harness crate /verif/harness, path dependency on /repo), parsing the per-check table, replaying counterexamples natively via concrete playback"}],
    "checks": checks,
    "not_applicable": na,
    "notes": "All checks are bounded: see DESIGN.md for bounds and the clauses outside each claim. known_findings.txt lists genuine defects recorded rather than repaired.",
}
json.dump(m, open(os.path.join(ROOT, "MANIFEST.json"), "w"), indent=1)
print("checks:", [c["property_id"] for c in checks]); print("n/a:", [n["property_id"] for n in na])
