#!/bin/bash
# usage: seedtest.sh <seed-name> <worktree> <property> [check args...]
# 1. confirms a sub-agent's seeded fault in its scratch worktree (suite passes, demo fails with / passes without)
# 2. stores it under /verif/seeded/<seed-name>/
# 3. runs ./check <property> <args> against the worktree with the change applied
#    (VERIF_REPO=<worktree>: same harnesses, scratch copy of the harness crate; /repo is not touched,
#    so several seeds can be tried in parallel). `seedtest.sh --official` variant: see seedofficial.sh
set -u
NAME=$1; WT=$2; PROP=$3; shift 3
OUT=/verif/seeded/$NAME
mkdir -p $OUT
export CARGO_TARGET_DIR=$WT/target CARGO_NET_OFFLINE=true
cd $WT || exit 9
if [ ! -f $OUT/confirm.txt ] || ! grep -q "demo_with_change_rc=101 suite_with_change_rc=0 demo_without_change_rc=0" $OUT/confirm.txt; then
  git diff -- src > $OUT/patch.diff
  cp tests/seed_demo.rs $OUT/seed_demo.rs 2>/dev/null
  [ -f SEED/README.md ] && cp SEED/README.md $OUT/agent_README.md
  cargo test --offline --test seed_demo > $OUT/demo_with.log 2>&1; R1=$?
  mv tests/seed_demo.rs /tmp/seed_demo_$NAME.rs
  cargo test --offline --no-fail-fast > $OUT/suite_with.log 2>&1; R2=$?
  mv /tmp/seed_demo_$NAME.rs tests/seed_demo.rs
  git apply -R $OUT/patch.diff
  cargo test --offline --test seed_demo > $OUT/demo_without.log 2>&1; R3=$?
  git apply $OUT/patch.diff
  echo "demo_with_change_rc=$R1 suite_with_change_rc=$R2 demo_without_change_rc=$R3" | tee $OUT/confirm.txt
  if [ $R1 -eq 0 ] || [ $R2 -ne 0 ] || [ $R3 -ne 0 ]; then echo "SEED NOT CONFIRMED"; exit 8; fi
fi
unset CARGO_TARGET_DIR
cd /verif
VERIF_REPO=$WT ./check $PROP "$@" --no-evidence > $OUT/check_$PROP.log 2>&1; RC=$?
echo "check $PROP $* rc=$RC" | tee -a $OUT/confirm.txt
grep -E "VIOLATION|KNOWN-FINDING|INCONCLUSIVE|harnesses,|fail " $OUT/check_$PROP.log | cut -c1-220
