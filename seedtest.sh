#!/bin/bash
# usage: seedtest.sh <seed-name> <worktree> <property> [check args...]
# 1. confirms a sub-agent's seeded fault in its scratch worktree (suite passes, demo fails with / passes without)
# 2. stores it under /verif/seeded/<seed-name>/
# 3. applies it to /repo, runs ./check <property> <args>, and undoes it straight afterwards
set -u
NAME=$1; WT=$2; PROP=$3; shift 3
OUT=/verif/seeded/$NAME
mkdir -p $OUT
export CARGO_TARGET_DIR=$WT/target CARGO_NET_OFFLINE=true
cd $WT || exit 9
git diff -- src > $OUT/patch.diff
cp tests/seed_demo.rs $OUT/seed_demo.rs 2>/dev/null
[ -f SEED/README.md ] && cp SEED/README.md $OUT/agent_README.md
echo "== demo with the change (expect FAIL)"
cargo test --offline --test seed_demo > $OUT/demo_with.log 2>&1; R1=$?
mv tests/seed_demo.rs /tmp/seed_demo_$NAME.rs
echo "== suite with the change (expect PASS)"
cargo test --offline --no-fail-fast > $OUT/suite_with.log 2>&1; R2=$?
mv /tmp/seed_demo_$NAME.rs tests/seed_demo.rs
git apply -R $OUT/patch.diff
echo "== demo without the change (expect PASS)"
cargo test --offline --test seed_demo > $OUT/demo_without.log 2>&1; R3=$?
git apply $OUT/patch.diff
echo "demo_with_change_rc=$R1 suite_with_change_rc=$R2 demo_without_change_rc=$R3" | tee $OUT/confirm.txt
if [ $R1 -eq 0 ] || [ $R2 -ne 0 ] || [ $R3 -ne 0 ]; then echo "SEED NOT CONFIRMED"; exit 8; fi
cd /verif
git -C /repo apply $OUT/patch.diff || { echo "patch does not apply to /repo"; exit 7; }
./check $PROP "$@" --no-evidence > $OUT/check_$PROP.log 2>&1; RC=$?
git -C /repo checkout -- .
echo "check_rc=$RC" | tee -a $OUT/confirm.txt
grep -E "VIOLATION|KNOWN-FINDING|INCONCLUSIVE|harnesses," $OUT/check_$PROP.log | cut -c1-200
git -C /repo status --short | head -3
