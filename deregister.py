#!/usr/bin/env python3
"""deregister.py <reason> <harness>...  -- turns registered harnesses into plain (unregistered) code."""
import re, sys, glob
reason, names = sys.argv[1], set(sys.argv[2:])
for f in glob.glob('/verif/harness/src/c*.rs'):
    lines = open(f).read().split('\n')
    out, i, changed = [], 0, False
    while i < len(lines):
        l = lines[i]
        if l.startswith('//@'):
            # find the harness name this spec belongs to
            j = i + 1
            name = None
            while j < min(i + 8, len(lines)):
                m = re.match(r"\s*(?:pub )?fn ([a-zA-Z0-9_]+)\s*\(\s*\)", lines[j]) or re.match(r"\s*[a-z0-9_]+!\(\s*([a-zA-Z0-9_]+)\s*,", lines[j])
                if m:
                    name = m.group(1); break
                j += 1
            if name in names:
                changed = True
                out.append('// (not registered: %s) %s' % (reason, l[3:].strip()))
                k = i + 1
                while k <= j:
                    ll = lines[k]
                    if re.match(r"\s*[a-z0-9_]+!\(", ll):
                        out.append('// ' + ll)          # macro-generated harness: drop the invocation
                    elif '#[kani::proof]' in ll:
                        out.append(ll.replace('#[kani::proof]', '#[allow(dead_code)]'))
                    elif '#[kani::should_panic]' in ll or '#[kani::unwind' in ll or '#[kani::stub' in ll:
                        out.append('// ' + ll)
                    else:
                        out.append(ll)
                    k += 1
                i = j + 1
                continue
        out.append(l)
        i += 1
    if changed:
        open(f, 'w').write('\n'.join(out))
        print("edited", f)
