#![allow(unused)]
use ndarray::prelude::*;
use ndarray_stats::*;
use num_traits::{Float, FromPrimitive, Num, NumCast, One, ToPrimitive, Zero};
use std::cmp::Ordering;
use std::ops::*;

/// Exact rational scalar, unnormalised, d > 0.
#[derive(Clone, Copy, Debug)]
pub struct Q { pub n: i64, pub d: i64 }
impl Q { pub fn int(n: i64) -> Q { Q { n, d: 1 } } }
impl Q { pub fn is_nanq(&self) -> bool { self.d == 0 && self.n == 0 } pub fn is_infq(&self) -> bool { self.d == 0 && self.n != 0 } pub const NAN: Q = Q { n: 0, d: 0 }; pub const NINF: Q = Q { n: -1, d: 0 }; pub const PINF: Q = Q { n: 1, d: 0 }; }
impl PartialEq for Q { fn eq(&self, o: &Q) -> bool { if self.is_nanq() || o.is_nanq() { return false; } if self.d == 0 || o.d == 0 { return self.d == 0 && o.d == 0 && (self.n > 0) == (o.n > 0); } (self.n as i128) * (o.d as i128) == (o.n as i128) * (self.d as i128) } }
impl PartialOrd for Q { fn partial_cmp(&self, o: &Q) -> Option<Ordering> { ((self.n as i128) * (o.d as i128)).partial_cmp(&((o.n as i128) * (self.d as i128))) } }
impl Add for Q { type Output = Q; fn add(self, o: Q) -> Q { if self.is_nanq() || o.is_nanq() { return Q::NAN; } if self.d == 0 && o.d == 0 { return if (self.n > 0) == (o.n > 0) { self } else { Q::NAN }; } if self.d == 0 { return self; } if o.d == 0 { return o; } Q { n: self.n * o.d + o.n * self.d, d: self.d * o.d } } }
impl Sub for Q { type Output = Q; fn sub(self, o: Q) -> Q { Q { n: self.n * o.d - o.n * self.d, d: self.d * o.d } } }
impl Mul for Q { type Output = Q; fn mul(self, o: Q) -> Q { if self.is_nanq() || o.is_nanq() { return Q::NAN; } if self.d == 0 || o.d == 0 { if self.n == 0 || o.n == 0 { return Q::NAN; } return if (self.n > 0) == (o.n > 0) { Q::PINF } else { Q::NINF }; } Q { n: self.n * o.n, d: self.d * o.d } } }
impl Div for Q { type Output = Q; fn div(self, o: Q) -> Q { assert!(o.n != 0, "Q: division by zero"); let (n, d) = (self.n * o.d, self.d * o.n); if d < 0 { Q { n: -n, d: -d } } else { Q { n, d } } } }
impl Rem for Q { type Output = Q; fn rem(self, _o: Q) -> Q { unreachable!() } }
impl Neg for Q { type Output = Q; fn neg(self) -> Q { Q { n: -self.n, d: self.d } } }
fn log2_exact(v: i64) -> Option<i64> { let mut k = 0; let mut p = 1i64; while k < 8 { if p == v { return Some(k); } p *= 2; k += 1; } None }
impl AddAssign for Q { fn add_assign(&mut self, o: Q) { *self = *self + o; } }
impl Zero for Q { fn zero() -> Q { Q::int(0) } fn is_zero(&self) -> bool { self.n == 0 } }
impl One for Q { fn one() -> Q { Q::int(1) } }
impl Num for Q { type FromStrRadixErr = (); fn from_str_radix(_: &str, _: u32) -> Result<Q, ()> { unreachable!() } }
impl ToPrimitive for Q { fn to_i64(&self) -> Option<i64> { unreachable!() } fn to_u64(&self) -> Option<u64> { unreachable!() } }
impl NumCast for Q { fn from<T: ToPrimitive>(n: T) -> Option<Q> { n.to_i64().map(Q::int) } }
impl FromPrimitive for Q { fn from_i64(n: i64) -> Option<Q> { Some(Q::int(n)) } fn from_u64(n: u64) -> Option<Q> { Some(Q::int(n as i64)) } }
macro_rules! un { ($($f:ident),*) => { $( fn $f(self) -> Self { unreachable!() } )* } }
impl Float for Q {
    fn nan() -> Q { unreachable!() } fn infinity() -> Q { unreachable!() } fn neg_infinity() -> Q { unreachable!() } fn neg_zero() -> Q { unreachable!() }
    fn min_value() -> Q { unreachable!() } fn min_positive_value() -> Q { unreachable!() } fn max_value() -> Q { unreachable!() }
    fn is_nan(self) -> bool { false } fn is_infinite(self) -> bool { false } fn is_finite(self) -> bool { true } fn is_normal(self) -> bool { true }
    fn classify(self) -> std::num::FpCategory { unreachable!() }
    un!(floor, ceil, round, trunc, fract, signum, exp, exp2, log2, log10, cbrt, sin, cos, tan, asin, acos, atan, exp_m1, ln_1p, sinh, cosh, tanh, asinh, acosh, atanh, sqrt);
    /// ln in units of ln 2, exact on 2^k; ln 0 = -inf; NaN and negatives give NaN.
    fn ln(self) -> Q { if self.is_nanq() || self.n < 0 { return Q::NAN; } if self.d == 0 { return Q::PINF; } if self.n == 0 { return Q::NINF; } match (log2_exact(self.n), log2_exact(self.d)) { (Some(a), Some(b)) => Q::int(a - b), _ => { kani_unsupported(); Q::NAN } } }
    fn abs(self) -> Q { if self.n < 0 { -self } else { self } }
    fn is_sign_positive(self) -> bool { self.n >= 0 } fn is_sign_negative(self) -> bool { self.n < 0 }
    fn mul_add(self, a: Q, b: Q) -> Q { self * a + b }
    fn recip(self) -> Q { Q::int(1) / self }
    fn powi(self, k: i32) -> Q { let mut r = Q::int(1); let mut i = 0; while i < k { r = r * self; i += 1; } r }
    fn powf(self, _: Q) -> Q { unreachable!() } fn log(self, _: Q) -> Q { unreachable!() }
    fn max(self, o: Q) -> Q { if self >= o { self } else { o } } fn min(self, o: Q) -> Q { if self <= o { self } else { o } }
    fn abs_sub(self, _: Q) -> Q { unreachable!() } fn hypot(self, _: Q) -> Q { unreachable!() } fn atan2(self, _: Q) -> Q { unreachable!() }
    fn sin_cos(self) -> (Q, Q) { unreachable!() }
    fn integer_decode(self) -> (u64, i16, i8) { unreachable!() }
}

#[cfg(kani)] fn kani_unsupported() { kani::assume(false); }
#[cfg(not(kani))] fn kani_unsupported() { unreachable!() }

#[cfg(kani)]
mod proofs {
    use super::*;
    fn small() -> i64 { let b: u8 = kani::any(); (b & 3) as i64 }
    /// one of 0, 1/4, 1/2, 1, 2, NaN
    fn prob() -> Q { let b: u8 = kani::any(); match b & 7 { 0 => Q::int(0), 1 => Q { n: 1, d: 4 }, 2 => Q { n: 1, d: 2 }, 3 => Q::int(1), 4 => Q::int(2), 5 => Q::NAN, _ => Q::int(0) } }
    fn term(p: Q, l: Q) -> Q { if p == Q::int(0) { Q::int(0) } else { p * l } }

    #[kani::proof]
    #[kani::unwind(20)]
    fn entropy_q() {
        let x = [prob(), prob(), prob()];
        let a = Array1::from(x.to_vec());
        let e = a.entropy().unwrap();
        let expect = -(term(x[0], x[0].ln()) + term(x[1], x[1].ln()) + term(x[2], x[2].ln()));
        let any_nan = x[0].is_nanq() || x[1].is_nanq() || x[2].is_nanq();
        if any_nan { assert!(e.is_nanq()); } else { assert!(e == expect); }
        kani::cover!(!any_nan && e == Q::int(1), "entropy one reachable");
    }

    #[kani::proof]
    #[kani::unwind(20)]
    fn crossent_q_mixed() {
        let p = [prob(), prob(), prob(), prob()];
        let q = [prob(), prob(), prob(), prob()];
        let pa = Array2::from_shape_vec((2, 2), p.to_vec()).unwrap();
        let qt = Array2::from_shape_vec((2, 2), q.to_vec()).unwrap();
        let qa = qt.t(); // qa[(i,j)] = q[j*2+i]
        let h = pa.cross_entropy(&qa).unwrap();
        let mut acc = Q::int(0); let mut nan = false;
        for i in 0..2 { for j in 0..2 {
            let (pp, qq) = (p[i * 2 + j], q[j * 2 + i]);
            let t = term(pp, qq.ln());
            if pp.is_nanq() || t.is_nanq() { nan = true; }
            acc = acc + t;
        }}
        if nan || acc.is_nanq() { assert!(h.is_nanq()); } else { assert!(h == -acc); }
    }


    #[kani::proof]
    #[kani::unwind(18)]
    fn wvar_q_n2() {
        let x = [small(), small()];
        let w = [small() + 1, small() + 1];
        let a = Array1::from(vec![Q::int(x[0]), Q::int(x[1])]);
        let ww = Array1::from(vec![Q::int(w[0]), Q::int(w[1])]);
        let v = a.weighted_var(&ww, Q::int(0)).unwrap();
        // definition: sum w (x - xbar)^2 / sum w, xbar = sum w x / sum w  =>  (W * sum w x^2 - (sum w x)^2) / W^2
        let bw = w[0] + w[1];
        let swx = w[0] * x[0] + w[1] * x[1];
        let swxx = w[0] * x[0] * x[0] + w[1] * x[1] * x[1];
        let expect = Q { n: bw * swxx - swx * swx, d: bw * bw };
        assert!(v == expect);
    }

    #[kani::proof]
    #[kani::unwind(18)]
    fn wvar_q_n3() {
        let x = [small(), small(), small()];
        let w = [small() + 1, small() + 1, small() + 1];
        let a = Array1::from(vec![Q::int(x[0]), Q::int(x[1]), Q::int(x[2])]);
        let ww = Array1::from(vec![Q::int(w[0]), Q::int(w[1]), Q::int(w[2])]);
        let v = a.weighted_var(&ww, Q::int(1)).unwrap();
        let bw = w[0] + w[1] + w[2];
        let swx = w[0] * x[0] + w[1] * x[1] + w[2] * x[2];
        let swxx = w[0] * x[0] * x[0] + w[1] * x[1] * x[1] + w[2] * x[2] * x[2];
        // sum w (x-xbar)^2 = swxx - swx^2 / W ; divided by (W - 1)
        let expect = Q { n: bw * swxx - swx * swx, d: bw * (bw - 1) };
        assert!(v == expect);
    }

    #[kani::proof]
    #[kani::unwind(18)]
    fn cmom_q_n3() {
        let x = [small(), small(), small()];
        let a = Array1::from(vec![Q::int(x[0]), Q::int(x[1]), Q::int(x[2])]);
        let m = a.central_moment(3).unwrap();
        // (1/3) sum (x - s/3)^3 = sum (3x - s)^3 / 81
        let s = x[0] + x[1] + x[2];
        let mut acc = 0i64;
        for t in 0..3 { let d = 3 * x[t] - s; acc += d * d * d; }
        assert!(m == Q { n: acc, d: 81 });
    }

    #[kani::proof]
    #[kani::unwind(18)]
    fn cov_q_2x2() {
        let x = [small(), small(), small(), small()];
        let a = Array2::from_shape_vec((2, 2), x.iter().map(|&v| Q::int(v)).collect()).unwrap();
        let c = a.cov(Q::int(1)).unwrap();
        // rows are variables; n=2 observations; mean_i = (x_i0+x_i1)/2 ; cov_ij = sum_k (x_ik - m_i)(x_jk - m_j) / 1
        // (x_i0 - m_i) = (x_i0 - x_i1)/2, (x_i1 - m_i) = -(x_i0-x_i1)/2 ; cov_ij = 2 * d_i d_j / 4 = d_i d_j / 2
        let d0 = x[0] - x[1]; let d1 = x[2] - x[3];
        assert!(c[(0, 0)] == Q { n: d0 * d0, d: 2 });
        assert!(c[(0, 1)] == Q { n: d0 * d1, d: 2 });
        assert!(c[(1, 0)] == c[(0, 1)]);
        assert!(c[(1, 1)] == Q { n: d1 * d1, d: 2 });
    }
}
