use noisy_float::types::n64;
#[test]
fn equispaced_float_drop_max() {
    let w = f64::from_le_bytes([208, 255, 255, 255, 255, 255, 15, 64]);
    let mn = f64::from_le_bytes([0, 0, 0, 0, 0, 128, 127, 64]);
    let mx = f64::from_le_bytes([255, 255, 255, 255, 255, 255, 127, 64]);
    let (bins, nb) = ndarray_stats::verif_hooks::verif_equispaced(n64(w), n64(mn), n64(mx)).unwrap();
    println!("w={:e} min={} max={:.17} n_bins={} bins.len={} last_edge={:.17} index_of(max)={:?}", w, mn, mx, nb, bins.len(), bins.index(bins.len()-1).end, bins.index_of(&n64(mx)));
}
