use ndarray::prelude::*;
use ndarray_stats::*;
#[test]
fn partition_single() {
    let mut a = array![7];
    let r = std::panic::catch_unwind(move || a.partition_mut(0));
    println!("partition single: {:?}", r.is_ok());
}
#[test]
fn select_oob_len1() {
    let mut a = array![7];
    let r = std::panic::catch_unwind(move || a.get_from_sorted_mut(5));
    println!("select oob len1 returns: {:?}", r);
    let mut a = array![7];
    let r = std::panic::catch_unwind(move || a.get_many_from_sorted_mut(&array![5usize]));
    println!("bulk oob len1 returns: {:?}", r);
}
#[test]
fn option_stride() {
    let mut a = array![Some(1), None, Some(3), None, Some(5), None];
    let v = a.slice_mut(s![..;2]);
    let r = <Option<i32> as MaybeNan>::remove_nan_mut(v);
    println!("strided option: len {} {:?}", r.len(), r.iter().map(|x| x.clone().into_inner()).collect::<Vec<_>>());
}
