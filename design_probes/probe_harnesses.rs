#![allow(unused)]
use ndarray::prelude::*;
use ndarray_stats::*;
use ndarray_stats::interpolate::*;
use noisy_float::types::{n64, N64};

#[cfg(kani)]
mod proofs {
    use super::*;

    const N: usize = 4;

    #[kani::proof]
    #[kani::unwind(6)]
    fn partition_n4() {
        let vals: [u8; N] = kani::any();
        let len: usize = kani::any();
        kani::assume(len >= 2 && len <= N);
        let mut a = Array1::from(vals.to_vec());
        let mut v = a.slice_mut(s![..len]);
        let p: usize = kani::any();
        kani::assume(p < len);
        let pv = v[p];
        let k = v.partition_mut(p);
        assert!(k < len);
        assert!(v[k] == pv);
        let mut less = 0usize;
        for t in 0..N { if t < len && vals[t] < pv { less += 1; } }
        assert!(k == less);
        for t in 0..N {
            if t < len {
                if t < k { assert!(v[t] < pv); }
                if t > k { assert!(v[t] >= pv); }
            }
        }
        let w: u8 = kani::any();
        let mut c0 = 0usize; let mut c1 = 0usize;
        for t in 0..N { if t < len { if vals[t]==w {c0+=1;} if v[t]==w {c1+=1;} } }
        assert!(c0 == c1);
    }

    #[kani::proof]
    #[kani::unwind(6)]
    fn select_n4() {
        let vals: [u8; N] = kani::any();
        let len: usize = kani::any();
        kani::assume(len >= 1 && len <= N);
        let mut a = Array1::from(vals.to_vec());
        let mut v = a.slice_mut(s![..len]);
        let i: usize = kani::any();
        kani::assume(i < len);
        let r = v.get_from_sorted_mut(i);
        let mut lt = 0usize; let mut le = 0usize;
        for t in 0..N { if t < len { if vals[t] < r { lt += 1; } if vals[t] <= r { le += 1; } } }
        assert!(lt <= i && i < le);
        for t in 0..N {
            if t < len {
                if t < i { assert!(v[t] <= r); }
                if t >= i { assert!(v[t] >= r); }
            }
        }
    }

    // bulk selection, recursive core, no IndexMap
    #[kani::proof]
    #[kani::unwind(6)]
    fn bulk_core_n4() {
        let vals: [u8; N] = kani::any();
        let mut a = Array1::from(vals.to_vec());
        // symbolic subset of {0..N} as sorted deduped list
        let mask: u8 = kani::any();
        kani::assume(mask < 16 && mask != 0);
        let mut idx: Vec<usize> = Vec::new();
        for t in 0..N { if mask & (1 << t) != 0 { idx.push(t); } }
        let orig = idx.clone();
        let mut values = vec![0u8; idx.len()];
        ndarray_stats::verif_hooks::verif_get_many_unchecked(a.view_mut(), &mut idx, &mut values);
        for k in 0..N {
            if k < orig.len() {
                let i = orig[k];
                let r = values[k];
                let mut lt = 0usize; let mut le = 0usize;
                for t in 0..N { if vals[t] < r { lt += 1; } if vals[t] <= r { le += 1; } }
                assert!(lt <= i && i < le);
            }
        }
    }

    // public bulk API with IndexMap
    #[kani::proof]
    #[kani::unwind(5)]
    fn bulk_pub_n3() {
        let vals: [u8; 3] = kani::any();
        let mut a = Array1::from(vals.to_vec());
        let i0: usize = kani::any(); let i1: usize = kani::any();
        kani::assume(i0 < 3 && i1 < 3);
        let m = a.get_many_from_sorted_mut(&array![i0, i1]);
        let r = m[&i0];
        let mut lt = 0usize; let mut le = 0usize;
        for t in 0..3 { if vals[t] < r { lt += 1; } if vals[t] <= r { le += 1; } }
        assert!(lt <= i0 && i0 < le);
    }

    #[kani::proof]
    #[kani::unwind(4)]
    fn select_n3c() {
        let vals: [u8; 3] = kani::any();
        let mut a = Array1::from(vals.to_vec());
        let i: usize = kani::any();
        kani::assume(i < 3);
        let r = a.get_from_sorted_mut(i);
        let mut lt = 0usize; let mut le = 0usize;
        for t in 0..3 { if vals[t] < r { lt += 1; } if vals[t] <= r { le += 1; } }
        assert!(lt <= i && i < le);
    }

    #[kani::proof]
    #[kani::unwind(5)]
    fn select_n4c() {
        let vals: [u8; 4] = kani::any();
        let mut a = Array1::from(vals.to_vec());
        let i: usize = kani::any();
        kani::assume(i < 4);
        let r = a.get_from_sorted_mut(i);
        let mut lt = 0usize; let mut le = 0usize;
        for t in 0..4 { if vals[t] < r { lt += 1; } if vals[t] <= r { le += 1; } }
        assert!(lt <= i && i < le);
    }

    #[kani::proof]
    #[kani::unwind(4)]
    fn bulk_core_n3() {
        let vals: [u8; 3] = kani::any();
        let mut a = Array1::from(vals.to_vec());
        let mask: u8 = kani::any();
        kani::assume(mask < 8 && mask != 0);
        let mut idx: Vec<usize> = Vec::new();
        for t in 0..3 { if mask & (1 << t) != 0 { idx.push(t); } }
        let orig = idx.clone();
        let mut values = vec![0u8; idx.len()];
        ndarray_stats::verif_hooks::verif_get_many_unchecked(a.view_mut(), &mut idx, &mut values);
        for k in 0..3 {
            if k < orig.len() {
                let i = orig[k];
                let r = values[k];
                let mut lt = 0usize; let mut le = 0usize;
                for t in 0..3 { if vals[t] < r { lt += 1; } if vals[t] <= r { le += 1; } }
                assert!(lt <= i && i < le);
            }
        }
    }

    #[kani::proof]
    #[kani::unwind(4)]
    fn quantile_lower_n2() {
        let vals: [i8; 2] = kani::any();
        let mut a = Array1::from(vals.to_vec());
        let r = a.quantile_mut(n64(0.5), &Lower).unwrap();
        assert!(r <= vals[0] && r <= vals[1]);
        assert!(r == vals[0] || r == vals[1]);
    }

    // ---- remove_nan ----
    #[kani::proof]
    #[kani::unwind(6)]
    fn remove_nan_f64_stride2() {
        let mut buf: [f64; 7] = kani::any();
        let orig = buf;
        let mut a = ArrayViewMut1::from(&mut buf[..]);
        let v = a.slice_move(s![1..;2]); // elements 1,3,5
        let r = <f64 as MaybeNan>::remove_nan_mut(v);
        let mut cnt = 0usize;
        for t in [1usize,3,5] { if !orig[t].is_nan() { cnt += 1; } }
        assert!(r.len() == cnt);
        for k in 0..3 { if k < r.len() { assert!(!r[k].raw().is_nan()); } }
    }

    #[kani::proof]
    #[kani::unwind(6)]
    fn remove_nan_opt_stride2() {
        let mut buf: [Option<i8>; 7] = kani::any();
        let orig = buf;
        let mut a = ArrayViewMut1::from(&mut buf[..]);
        let v = a.slice_move(s![1..;2]);
        let r = <Option<i8> as MaybeNan>::remove_nan_mut(v);
        let mut cnt = 0usize;
        for t in [1usize,3,5] { if orig[t].is_some() { cnt += 1; } }
        assert!(r.len() == cnt);
        for k in 0..3 { if k < r.len() { assert!(r[k].into_inner().is_some()); } }
    }

    #[kani::proof]
    #[kani::unwind(6)]
    fn remove_nan_opt_strideneg() {
        let mut buf: [Option<i8>; 4] = kani::any();
        let orig = buf;
        let mut a = ArrayViewMut1::from(&mut buf[..]);
        let v = a.slice_move(s![..;-1]);
        let r = <Option<i8> as MaybeNan>::remove_nan_mut(v);
        for k in 0..4 { if k < r.len() { assert!(r[k].into_inner().is_some()); } }
    }

    // ---- argmin on 2x2 f32 incl NaN, F-order ----
    #[kani::proof]
    #[kani::unwind(6)]
    fn argmin_2x2_f32() {
        let vals: [f32; 4] = kani::any();
        let a = Array2::from_shape_vec((2, 2), vals.to_vec()).unwrap();
        let t = a.t(); // F-order view; t[(i,j)] = vals[j*2+i]
        let has_nan = vals[0].is_nan() || vals[1].is_nan() || vals[2].is_nan() || vals[3].is_nan();
        match t.argmin() {
            Ok((i, j)) => {
                assert!(!has_nan);
                let m = t[(i, j)];
                assert!(m == vals[j * 2 + i]);
                for k in 0..4 { assert!(m <= vals[k]); }
                assert!(*t.min().unwrap() == m);
            }
            Err(e) => { assert!(has_nan); assert!(e == errors::MinMaxError::UndefinedOrder); }
        }
    }

    // ---- deviation: mixed layouts, integer exact ----
    #[kani::proof]
    #[kani::unwind(6)]
    fn dev_2x2_i32_mixed() {
        let av: [i8; 4] = kani::any();
        let bv: [i8; 4] = kani::any();
        let a = Array2::from_shape_vec((2, 2), av.iter().map(|&x| x as i32).collect()).unwrap();
        let bt = Array2::from_shape_vec((2, 2), bv.iter().map(|&x| x as i32).collect()).unwrap();
        let b = bt.t(); // b[(i,j)] = bv[j*2+i]
        let mut eq = 0usize; let mut l1 = 0i32; let mut sq = 0i32; let mut linf = 0i32;
        for i in 0..2 { for j in 0..2 {
            let x = av[i*2+j] as i32; let y = bv[j*2+i] as i32;
            if x == y { eq += 1; }
            let d = (x - y).abs(); l1 += d; sq += d*d; if d > linf { linf = d; }
        }}
        assert!(a.count_eq(&b).unwrap() == eq);
        assert!(a.count_neq(&b).unwrap() == 4 - eq);
        assert!(a.l1_dist(&b).unwrap() == l1);
        assert!(a.sq_l2_dist(&b).unwrap() == sq);
        assert!(a.linf_dist(&b).unwrap() == linf);
    }

    // ---- edges / bins ----
    #[kani::proof]
    #[kani::unwind(8)]
    fn edges_n3() {
        use ndarray_stats::histogram::{Edges, Bins};
        let ev: [u8; 3] = kani::any();
        let edges = Edges::from(ev.to_vec());
        let n = edges.len();
        assert!(n >= 1 && n <= 3);
        for k in 1..3 { if k < n { assert!(edges[k-1] < edges[k]); } }
        let v: u8 = kani::any();
        match edges.indices_of(&v) {
            Some((l, r)) => { assert!(r == l + 1 && r < n); assert!(edges[l] <= v && v < edges[r]); }
            None => { assert!(n < 2 || v < edges[0] || v >= edges[n-1]); }
        }
    }

    // ---- histogram 2-d grid ----
    #[kani::proof]
    #[kani::unwind(8)]
    fn hist_2d() {
        use ndarray_stats::histogram::{Edges, Bins, Grid, Histogram};
        let g = Grid::from(vec![Bins::new(Edges::from(vec![0u8, 10, 20])), Bins::new(Edges::from(vec![5u8, 6, 7, 8]))]);
        let mut h = Histogram::new(g);
        let p: [u8; 2] = kani::any();
        let r = h.add_observation(&aview1(&p));
        let inside = p[0] < 20 && p[1] >= 5 && p[1] < 8;
        assert!(r.is_ok() == inside);
        let c = h.counts();
        if inside {
            let i = if p[0] < 10 {0} else {1};
            let j = (p[1] - 5) as usize;
            assert!(c[[i, j]] == 1);
            assert!(c.sum() == 1);
        } else { assert!(c.sum() == 0); }
    }

    // ---- integer mean / weighted_sum ----
    #[kani::proof]
    #[kani::unwind(10)]
    fn wsum_2x2_i32() {
        let av: [i8; 4] = kani::any();
        let wv: [i8; 4] = kani::any();
        let a = Array2::from_shape_vec((2, 2), av.iter().map(|&x| x as i32).collect()).unwrap();
        let w = Array2::from_shape_vec((2, 2).f(), wv.iter().map(|&x| x as i32).collect()).unwrap(); // w[(i,j)] = wv[j*2+i]
        let mut s = 0i32; let mut sa = 0i32;
        for i in 0..2 { for j in 0..2 { s += (av[i*2+j] as i32) * (wv[j*2+i] as i32); sa += av[i*2+j] as i32; } }
        assert!(a.weighted_sum(&w).unwrap() == s);
        assert!(a.mean().unwrap() == sa / 4);
    }

    // ---- float mean with integer-valued floats ----
    #[kani::proof]
    #[kani::unwind(10)]
    fn mean_f64_intvals() {
        let av: [i16; 3] = kani::any();
        let a = Array1::from(av.iter().map(|&x| x as f64).collect::<Vec<_>>());
        let s: i32 = av[0] as i32 + av[1] as i32 + av[2] as i32;
        assert!(a.mean().unwrap() == (s as f64) / 3.0);
    }

    #[kani::proof]
    #[kani::unwind(10)]
    fn wvar_f32_n2() {
        let x: [f32; 2] = kani::any();
        let w: [f32; 2] = kani::any();
        for k in 0..2 { kani::assume(x[k].abs() <= 1000.0 && w[k] >= 0.5 && w[k] <= 2.0); }
        let a = Array1::from(x.to_vec()); let ww = Array1::from(w.to_vec());
        let v = a.weighted_var(&ww, 0.0).unwrap();
        assert!(v >= 0.0);
    }

    #[kani::proof]
    #[kani::unwind(10)]
    fn entropy_probe() {
        let x: [f64; 2] = kani::any();
        kani::assume(x[0] == 0.0 && x[1] == 1.0);
        let a = Array1::from(x.to_vec());
        let e = a.entropy().unwrap();
        assert!(e == 0.0);
    }

    // inductive step of bulk selection: body real, recursive calls cut by contract
    #[kani::proof]
    #[kani::unwind(6)]
    fn bulk_step_n4() {
        let vals: [u8; 4] = kani::any();
        let mut a = Array1::from(vals.to_vec());
        let mask: u8 = kani::any();
        kani::assume(mask < 16 && mask != 0);
        let mut idx: Vec<usize> = Vec::new();
        for t in 0..4 { if mask & (1 << t) != 0 { idx.push(t); } }
        let orig = idx.clone();
        let mut values = vec![0u8; idx.len()];
        unsafe { ndarray_stats::verif_hooks::CUT_AFTER = 1; }
        ndarray_stats::verif_hooks::verif_get_many_unchecked(a.view_mut(), &mut idx, &mut values);
        for k in 0..4 {
            if k < orig.len() {
                let i = orig[k];
                let r = values[k];
                let mut lt = 0usize; let mut le = 0usize;
                for t in 0..4 { if vals[t] < r { lt += 1; } if vals[t] <= r { le += 1; } }
                assert!(lt <= i && i < le);
            }
        }
        let w: u8 = kani::any();
        let mut c0 = 0usize; let mut c1 = 0usize;
        for t in 0..4 { if vals[t]==w {c0+=1;} if a[t]==w {c1+=1;} }
        assert!(c0 == c1);
    }

    // quantile pipeline with selection replaced by contract
    #[kani::proof]
    #[kani::unwind(6)]
    fn quantile_cut_n3() {
        let vals: [i8; 3] = kani::any();
        let mut a = Array1::from(vals.to_vec());
        unsafe { ndarray_stats::verif_hooks::CUT_AFTER = 0; }
        let r = a.quantile_mut(n64(0.5), &Lower).unwrap();
        let mut lt = 0usize; let mut le = 0usize;
        for t in 0..3 { if vals[t] < r { lt += 1; } if vals[t] <= r { le += 1; } }
        assert!(lt <= 1 && 1 < le);
    }

    #[kani::proof]
    #[kani::unwind(6)]
    fn indexmap_probe() {
        let k0: usize = kani::any(); let k1: usize = kani::any();
        kani::assume(k0 < 4 && k1 < 4 && k0 < k1);
        let v: [u8; 2] = kani::any();
        let m: indexmap::IndexMap<usize, u8> = [k0, k1].iter().cloned().zip(v.iter().cloned()).collect();
        assert!(m[&k0] == v[0]);
        assert!(m[&k1] == v[1]);
    }

    #[kani::proof]
    fn math_probe() {
        let x: f64 = kani::any();
        kani::assume(x == 2.0);
        let l = x.ln();
        assert!(l > 0.6931 && l < 0.6932, "ln2 precise");
        assert!(l > 0.6 && l < 0.8, "ln2 rough");
        let e = x.exp();
        assert!(e > 7.38 && e < 7.39, "exp2 precise");
        let p = x.powi(3);
        assert!(p == 8.0, "powi exact");
        let s = x.sqrt();
        assert!(s > 1.41421 && s < 1.41422, "sqrt precise");
        let z: f64 = kani::any();
        kani::assume(z == 0.0);
        assert!(z.ln() == f64::NEG_INFINITY, "ln0");
        let l10 = f64::log10(x);
        assert!(l10 > 0.30102 && l10 < 0.30104, "log10");
        let r = (x * 1.3).round();
        assert!(r == 3.0, "round");
        let c = x.powf(1.0/3.0);
        assert!(c > 1.2599 && c < 1.26, "cbrt");
        let l2 = (x*4.0).log2();
        assert!(l2 == 3.0, "log2");
    }

    fn const_random_state() -> std::hash::RandomState {
        unsafe { std::mem::transmute::<[u64; 2], std::hash::RandomState>([0x0123456789abcdef, 0xfedcba9876543210]) }
    }

    #[kani::proof]
    #[kani::unwind(6)]
    #[kani::stub(std::hash::RandomState::new, const_random_state)]
    fn quantile_cut_n3_rs() {
        let vals: [i8; 3] = kani::any();
        let mut a = Array1::from(vals.to_vec());
        unsafe { ndarray_stats::verif_hooks::CUT_AFTER = 0; }
        let r = a.quantile_mut(n64(0.5), &Lower).unwrap();
        let mut lt = 0usize; let mut le = 0usize;
        for t in 0..3 { if vals[t] < r { lt += 1; } if vals[t] <= r { le += 1; } }
        assert!(lt <= 1 && 1 < le);
    }

    #[kani::proof]
    #[kani::unwind(6)]
    #[kani::stub(std::hash::RandomState::new, const_random_state)]
    fn indexmap_probe_rs() {
        let v: [u8; 2] = kani::any();
        let m: indexmap::IndexMap<usize, u8> = [1usize, 3].iter().cloned().zip(v.iter().cloned()).collect();
        assert!(m[&1] == v[0]);
        assert!(m[&3] == v[1]);
    }

    #[kani::proof]
    fn cfg_probe() {
        #[cfg(my_probe_cfg)]
        { kani::cover!(true, "cfg flag visible"); }
        kani::cover!(cfg!(debug_assertions), "debug assertions on");
        kani::cover!(!cfg!(debug_assertions), "debug assertions off");
        let x: u8 = kani::any();
        let y = x + 1; // overflow check?
        kani::cover!(y == 0, "wrapped");
    }

    #[kani::proof]
    #[kani::unwind(6)]
    fn select_step_n4() {
        let vals: [u8; 4] = kani::any();
        let mut buf = vals;
        let mut v = ArrayViewMut1::from(&mut buf[..]);
        let i: usize = kani::any();
        kani::assume(i < 4);
        unsafe { ndarray_stats::verif_hooks::CUT_AFTER = 1; }
        let r = v.get_from_sorted_mut(i);
        let mut lt = 0usize; let mut le = 0usize;
        for t in 0..4 { if vals[t] < r { lt += 1; } if vals[t] <= r { le += 1; } }
        assert!(lt <= i && i < le);
        for t in 0..4 {
            if t < i { assert!(v[t] <= r); }
            if t >= i { assert!(v[t] >= r); }
        }
        let w: u8 = kani::any();
        let mut c0 = 0usize; let mut c1 = 0usize;
        for t in 0..4 { if vals[t]==w {c0+=1;} if v[t]==w {c1+=1;} }
        assert!(c0 == c1);
    }

    #[kani::proof]
    #[kani::unwind(6)]
    fn bulk_step2_n4() {
        let vals: [u8; 4] = kani::any();
        let mut buf = vals;
        let mut v = ArrayViewMut1::from(&mut buf[..]);
        let mask: u8 = kani::any();
        kani::assume(mask < 16 && mask != 0);
        let mut idx = [0usize; 4]; let mut m = 0usize;
        for t in 0..4 { if mask & (1 << t) != 0 { idx[m] = t; m += 1; } }
        let orig = idx;
        let mut values = [0u8; 4];
        unsafe { ndarray_stats::verif_hooks::CUT_AFTER = 1; }
        ndarray_stats::verif_hooks::verif_get_many_unchecked(v.view_mut(), &mut idx[..m], &mut values[..m]);
        for k in 0..4 {
            if k < m {
                let i = orig[k];
                let r = values[k];
                let mut lt = 0usize; let mut le = 0usize;
                for t in 0..4 { if vals[t] < r { lt += 1; } if vals[t] <= r { le += 1; } }
                assert!(lt <= i && i < le);
            }
        }
        let w: u8 = kani::any();
        let mut c0 = 0usize; let mut c1 = 0usize;
        for t in 0..4 { if vals[t]==w {c0+=1;} if v[t]==w {c1+=1;} }
        assert!(c0 == c1);
    }

    #[kani::proof]
    #[kani::unwind(7)]
    fn equispaced_i32() {
        let w: i32 = kani::any(); let mn: i32 = kani::any(); let mx: i32 = kani::any();
        kani::assume(mn > -1000000 && mx < 1000000 && w < 1000000);
        kani::assume(w <= 0 || mn >= mx || ((mx - mn) / w) < 5);
        match ndarray_stats::verif_hooks::verif_equispaced(w, mn, mx) {
            Err(_) => assert!(w <= 0 || mn >= mx),
            Ok((bins, nb)) => {
                assert!(w > 0 && mn < mx);
                assert!(bins.len() == nb);
                assert!(bins.index(0).start == mn);
                let last = bins.index(nb - 1);
                assert!(last.end > mx && last.end - mx <= w);
                assert!(bins.index_of(&mx) == Some(nb - 1));
            }
        }
    }

    #[kani::proof]
    #[kani::unwind(6)]
    fn equispaced_n64() {
        let w: f64 = kani::any(); let mn: f64 = kani::any(); let mx: f64 = kani::any();
        kani::assume(w > 0.001 && w < 1000.0 && mn > -1000.0 && mn < mx && mx < 1000.0);
        kani::assume((mx - mn) / w < 3.0);
        match ndarray_stats::verif_hooks::verif_equispaced(n64(w), n64(mn), n64(mx)) {
            Err(_) => assert!(false),
            Ok((bins, nb)) => {
                let last = bins.index(bins.len() - 1);
                assert!(last.end > n64(mx), "last edge above max");
            }
        }
    }

    #[kani::proof]
    fn powi_det() {
        let x: f32 = kani::any();
        kani::assume(x > 0.5 && x < 2.0);
        let a = x.powi(3); let b = x.powi(3);
        assert!(a == b, "powi deterministic");
        let c = x.ln(); let d = x.ln();
        assert!(c == d, "ln deterministic");
    }

    #[kani::proof]
    #[kani::unwind(6)]
    fn equispaced_i16() {
        let wb: u8 = kani::any(); let mnb: i8 = kani::any(); let mxb: i8 = kani::any();
        let w = (wb & 63) as i16 - 8; let mn = mnb as i16; let mx = mxb as i16;
        kani::assume(w <= 0 || mn >= mx || ((mx - mn) / w) < 4);
        match ndarray_stats::verif_hooks::verif_equispaced(w, mn, mx) {
            Err(_) => assert!(w <= 0 || mn >= mx),
            Ok((bins, nb)) => {
                assert!(w > 0 && mn < mx);
                assert!(bins.len() == nb);
                assert!(bins.index(0).start == mn);
                let last = bins.index(nb - 1);
                assert!(last.end > mx && last.end - mx <= w);
                assert!(bins.index_of(&mx) == Some(nb - 1));
                kani::cover!(nb == 4, "four bins reachable");
            }
        }
    }

    #[kani::proof]
    #[kani::unwind(4)]
    fn equispaced_n64s() {
        let w: f64 = kani::any(); let mn: f64 = kani::any(); let mx: f64 = kani::any();
        kani::assume(w > 0.001 && w < 1000.0 && mn > -1000.0 && mn < mx && mx < 1000.0);
        kani::assume(mn + w + w > mx);
        match ndarray_stats::verif_hooks::verif_equispaced(n64(w), n64(mn), n64(mx)) {
            Err(_) => assert!(false),
            Ok((bins, nb)) => {
                let last = bins.index(bins.len() - 1);
                assert!(last.end > n64(mx), "last edge above max");
            }
        }
    }

    #[kani::proof]
    #[kani::unwind(5)]
    fn wsum_axis_f32_diff() {
        let av: [f32; 4] = kani::any();
        let wv: [f32; 2] = kani::any();
        for k in 0..4 { kani::assume(av[k].is_finite()); }
        for k in 0..2 { kani::assume(wv[k].is_finite()); }
        let a = Array2::from_shape_vec((2, 2), av.to_vec()).unwrap();
        let w = Array1::from(wv.to_vec());
        let r = a.weighted_sum_axis(Axis(0), &w).unwrap();
        for j in 0..2 {
            let lane = a.index_axis(Axis(1), j).to_owned();
            let s = lane.weighted_sum(&w).unwrap();
            assert!(r[j].to_bits() == s.to_bits() || (r[j].is_nan() && s.is_nan()));
        }
    }

    #[kani::proof]
    #[kani::unwind(5)]
    fn nbins_n64() {
        let w: f64 = kani::any(); let mn: f64 = kani::any(); let mx: f64 = kani::any();
        kani::assume(w > 0.001 && w < 1000.0 && mn > -1000.0 && mn < mx && mx < 1000.0);
        kani::assume(mn + w + w + w > mx);
        let nb = ndarray_stats::verif_hooks::verif_equispaced_n_bins(n64(w), n64(mn), n64(mx)).unwrap();
        let last = n64(mn) + n64(nb as f64) * n64(w);
        assert!(last > n64(mx), "last edge above max");
    }

    #[kani::proof]
    #[kani::unwind(5)]
    #[kani::should_panic]
    fn select_oob_must_panic() {
        let vals: [u8; 2] = kani::any();
        let len: usize = kani::any();
        kani::assume(len <= 2);
        let mut buf = vals;
        let mut v = ArrayViewMut1::from(&mut buf[..len]);
        let i: usize = kani::any();
        kani::assume(i >= len);
        let _ = v.get_from_sorted_mut(i);
        kani::cover!(true, "RETURNED-WITHOUT-PANIC");
    }

    #[kani::proof]
    #[kani::unwind(6)]
    fn quantile_cut_n3_symq() {
        let vals: [i8; 3] = kani::any();
        let mut a = Array1::from(vals.to_vec());
        let qf: f64 = kani::any();
        kani::assume(qf >= 0.0 && qf <= 1.0);
        unsafe { ndarray_stats::verif_hooks::CUT_AFTER = 0; }
        let r = a.quantile_mut(n64(qf), &Nearest).unwrap();
        let x = qf * 2.0;
        let lo = x.floor() as usize; let hi = x.ceil() as usize;
        let want = if x - x.floor() < 0.5 { lo } else { hi };
        let mut lt = 0usize; let mut le = 0usize;
        for t in 0..3 { if vals[t] < r { lt += 1; } if vals[t] <= r { le += 1; } }
        assert!(lt <= want && want < le);
        kani::cover!(want == 2, "upper reachable");
    }

    #[kani::proof]
    #[kani::unwind(6)]
    fn hist_1d_seq3() {
        use ndarray_stats::histogram::{Edges, Bins, Grid, Histogram};
        let ev: [u8; 3] = kani::any();
        let edges = Edges::from(ev.to_vec());
        let ne = edges.len();
        let e: [u8; 3] = [edges[0], if ne > 1 { edges[1] } else { 0 }, if ne > 2 { edges[2] } else { 0 }];
        let g = Grid::from(vec![Bins::new(edges)]);
        let mut h = Histogram::new(g);
        let p: [u8; 3] = kani::any();
        let mut tally = [0usize; 2];
        for k in 0..3 {
            let r = h.add_observation(&aview1(&[p[k]]));
            let mut bin: Option<usize> = None;
            for b in 0..2 { if b + 1 < ne && e[b] <= p[k] && p[k] < e[b + 1] { bin = Some(b); } }
            assert!(r.is_ok() == bin.is_some());
            if let Some(b) = bin { tally[b] += 1; }
            let c = h.counts();
            assert!(c.shape()[0] == ne - 1);
            for b in 0..2 { if b + 1 < ne { assert!(c[[b]] == tally[b]); } }
        }
        kani::cover!(tally[1] == 2, "second bin twice");
    }

    #[kani::proof]
    #[kani::unwind(6)]
    fn quantile_2d_axis0() {
        // parent 4x3 buffer; view rows 0 and 2 (step 2), all 3 cols -> shape [2,3]; quantile along axis 0 (non-contiguous lanes of len 2)
        let vals: [i8; 12] = kani::any();
        let mut a = Array2::from_shape_vec((4, 3), vals.to_vec()).unwrap();
        let mut v = a.slice_mut(s![..;2, ..]);
        unsafe { ndarray_stats::verif_hooks::CUT_AFTER = 0; }
        let r = v.quantile_axis_mut(Axis(0), n64(1.0), &Higher).unwrap();
        assert!(r.len() == 3);
        for j in 0..3 {
            let x0 = vals[j]; let x1 = vals[6 + j];
            assert!(r[j] == if x0 > x1 { x0 } else { x1 });
        }
        // frame: rows 1 and 3 untouched
        for j in 0..3 { assert!(a[(1, j)] == vals[3 + j]); assert!(a[(3, j)] == vals[9 + j]); }
        // lanes only permuted
        for j in 0..3 {
            let (y0, y1) = (a[(0, j)], a[(2, j)]);
            assert!((y0 == vals[j] && y1 == vals[6 + j]) || (y0 == vals[6 + j] && y1 == vals[j]));
        }
    }

    #[kani::proof]
    #[kani::unwind(4)]
    fn replay_probe() {
        let vals: [u8; 2] = kani::any();
        let mut buf = vals;
        let mut v = ArrayViewMut1::from(&mut buf[..]);
        let r = v.get_from_sorted_mut(5);
        assert!(false, "returned without panic");
    }

    #[kani::proof]
    #[kani::unwind(6)]
    fn arc_probe() {
        let av: [i8; 4] = kani::any();
        let bv: [i8; 4] = kani::any();
        let a = Array1::from(av.to_vec()).into_shared();
        let b = Array1::from(bv.to_vec());
        let c = ndarray::CowArray::from(b.view());
        let mut eq = 0usize;
        for t in 0..4 { if av[t] == bv[t] { eq += 1; } }
        assert!(a.count_eq(&c).unwrap() == eq);
    }

    #[kani::proof]
    #[kani::unwind(4)]
    fn replay_probe2() {
        let vals: [u8; 2] = kani::any();
        let mut buf = vals;
        let mut v = ArrayViewMut1::from(&mut buf[..]);
        unsafe { ndarray_stats::verif_hooks::CUT_AFTER = 1; }
        let r = v.get_from_sorted_mut(1);
        assert!(r == vals[0], "deliberately false");
    }

    /// Test generated for harness `proofs::replay_probe2`
    ///
    /// Check for `assertion`: ""deliberately false""

    #[test]
    fn kani_concrete_playback_replay_probe2_3232561513936248544() {
        let concrete_vals: Vec<Vec<u8>> = vec![
        // 220
        vec![220],
        // 252
        vec![252],
        // 0ul
        vec![0, 0, 0, 0, 0, 0, 0, 0],
        // 0ul
        vec![0, 0, 0, 0, 0, 0, 0, 0],
    ];
    kani::concrete_playback_run(concrete_vals, replay_probe2);
}

    #[kani::proof]
    #[kani::unwind(6)]
    fn fix_partition_n1to4() {
        let vals: [u8; 4] = kani::any();
        let len: usize = kani::any();
        kani::assume(len >= 1 && len <= 4);
        let mut buf = vals;
        let mut v = ArrayViewMut1::from(&mut buf[..len]);
        let p: usize = kani::any();
        kani::assume(p < len);
        let pv = v[p];
        let k = v.partition_mut(p);
        assert!(k < len && v[k] == pv);
        let mut less = 0usize;
        for t in 0..4 { if t < len && vals[t] < pv { less += 1; } }
        assert!(k == less);
        for t in 0..4 { if t < len { if t < k { assert!(v[t] < pv); } if t > k { assert!(v[t] >= pv); } } }
        kani::cover!(len == 1, "single element reachable");
    }

    #[kani::proof]
    #[kani::unwind(6)]
    #[kani::should_panic]
    fn fix_select_oob_step() {
        let vals: [u8; 3] = kani::any();
        let len: usize = kani::any();
        kani::assume(len <= 3);
        let mut buf = vals;
        let mut v = ArrayViewMut1::from(&mut buf[..len]);
        let i: usize = kani::any();
        kani::assume(i >= len);
        unsafe { ndarray_stats::verif_hooks::CUT_AFTER = 1; }
        let _ = v.get_from_sorted_mut(i);
        kani::cover!(true, "RETURNED-WITHOUT-PANIC");
    }

    #[kani::proof]
    #[kani::unwind(5)]
    fn argmin_3d_dyn() {
        let vals: [i8; 4] = kani::any();
        let a = Array3::from_shape_vec((2, 1, 2), vals.to_vec()).unwrap();
        let p = a.view().permuted_axes([2, 1, 0]); // p[(k,0,i)] = a[(i,0,k)] = vals[i*2+k]
        let (k, z, i) = p.argmin().unwrap();
        assert!(z == 0 && i < 2 && k < 2);
        let m = vals[i * 2 + k];
        for t in 0..4 { assert!(m <= vals[t]); }
        let d = a.view().into_dyn();
        let idx = d.argmax().unwrap();
        let mm = d[&idx];
        for t in 0..4 { assert!(mm >= vals[t]); }
        let e = Array2::<i8>::zeros((2, 0));
        assert!(e.argmin() == Err(errors::MinMaxError::EmptyInput));
        let z0 = ndarray::arr0(vals[0]);
        assert!(z0.argmin() == Ok(()));
        assert!(*z0.max().unwrap() == vals[0]);
    }

    #[kani::proof]
    #[kani::unwind(6)]
    fn fold_skipnan_2x2() {
        let vals: [f32; 4] = kani::any();
        let a = Array2::from_shape_vec((2, 2), vals.to_vec()).unwrap();
        let t = a.t();
        let (cnt, sum) = t.fold_skipnan((0u32, 0u32), |(c, s), x| (c + 1, s.wrapping_add(x.raw().to_bits().wrapping_mul(3).wrapping_add(1))));
        let mut oc = 0u32; let mut os = 0u32;
        for k in 0..4 { if !vals[k].is_nan() { oc += 1; os = os.wrapping_add(vals[k].to_bits().wrapping_mul(3).wrapping_add(1)); } }
        assert!(cnt == oc && sum == os);
        let m = t.min_skipnan();
        if oc == 0 { assert!(m.is_nan()); } else { assert!(!m.is_nan()); for k in 0..4 { if !vals[k].is_nan() { assert!(*m <= vals[k]); } } }
        match t.argmax_skipnan() {
            Ok((i, j)) => { let v = vals[j * 2 + i]; assert!(!v.is_nan()); for k in 0..4 { if !vals[k].is_nan() { assert!(v >= vals[k]); } } }
            Err(_) => assert!(oc == 0),
        }
    }

    // C03/C02: select step on a reversed, stride-2 view inside a 9-cell parent with guards
    #[kani::proof]
    #[kani::unwind(6)]
    fn select_step_strided_guard() {
        let parent: [u8; 9] = kani::any();
        let mut buf = parent;
        {
            let mut whole = ArrayViewMut1::from(&mut buf[..]);
            let mut v = whole.slice_mut(s![1..8;-2]); // logical elements: parent[7], parent[5], parent[3], parent[1]
            let i: usize = kani::any();
            kani::assume(i < 4);
            unsafe { ndarray_stats::verif_hooks::CUT_AFTER = 1; }
            let r = v.get_from_sorted_mut(i);
            let mut lt = 0usize; let mut le = 0usize;
            for t in [1usize, 3, 5, 7] { if parent[t] < r { lt += 1; } if parent[t] <= r { le += 1; } }
            assert!(lt <= i && i < le);
        }
        for t in [0usize, 2, 4, 6, 8] { assert!(buf[t] == parent[t]); }
        let w: u8 = kani::any();
        let mut c0 = 0usize; let mut c1 = 0usize;
        for t in [1usize, 3, 5, 7] { if parent[t] == w { c0 += 1; } if buf[t] == w { c1 += 1; } }
        assert!(c0 == c1);
    }

    // C17: deviation error table on 2-D shapes
    #[kani::proof]
    #[kani::unwind(6)]
    fn errors_dev_2d() {
        use ndarray_stats::errors::MultiInputError;
        let sa: u8 = kani::any(); let sb: u8 = kani::any();
        kani::assume(sa < 4 && sb < 4);
        let shapes = [(2usize, 0usize), (1, 2), (2, 1), (2, 2)];
        let (ra, ca) = shapes[sa as usize]; let (rb, cb) = shapes[sb as usize];
        let va: [i8; 4] = kani::any(); let vb: [i8; 4] = kani::any();
        let a = Array2::from_shape_vec((ra, ca), va[..ra * ca].to_vec()).unwrap();
        let b = Array2::from_shape_vec((rb, cb), vb[..rb * cb].to_vec()).unwrap();
        match a.l1_dist(&b) {
            Err(MultiInputError::EmptyInput) => assert!(ra * ca == 0),
            Err(MultiInputError::ShapeMismatch(m)) => {
                assert!(ra * ca != 0 && (ra, ca) != (rb, cb));
                assert!(m.first_shape.len() == 2 && m.first_shape[0] == ra && m.first_shape[1] == ca);
                assert!(m.second_shape.len() == 2 && m.second_shape[0] == rb && m.second_shape[1] == cb);
            }
            Ok(_) => assert!(ra * ca != 0 && (ra, ca) == (rb, cb)),
        }
        kani::cover!(sa == 1 && sb == 2, "equal count different shape reachable");
    }

    // C06: f32 weighted_mean with small-integer payloads, mixed layouts: exact
    #[kani::proof]
    #[kani::unwind(6)]
    fn wmean_f32_smallint() {
        let xb: [u8; 4] = kani::any(); let wb: [u8; 4] = kani::any();
        let x: Vec<f32> = xb.iter().map(|b| ((b & 7) as i32 - 3) as f32).collect();
        let w: Vec<f32> = wb.iter().map(|b| ((b & 3) as i32 + 1) as f32).collect();
        let a = Array2::from_shape_vec((2, 2), x.clone()).unwrap();
        let wt = Array2::from_shape_vec((2, 2).f(), w.clone()).unwrap(); // wt[(i,j)] = w[j*2+i]
        let r = a.weighted_sum(&wt).unwrap();
        let mut s = 0i32;
        for i in 0..2 { for j in 0..2 { s += (((xb[i * 2 + j] & 7) as i32) - 3) * (((wb[j * 2 + i] & 3) as i32) + 1); } }
        assert!(r == s as f32);
    }

    // C12: build() with the iteration count pinned to k = 2
    #[kani::proof]
    #[kani::unwind(6)]
    fn equispaced_build_k2() {
        let wb: u8 = kani::any(); let mnb: i8 = kani::any(); let mxb: i8 = kani::any();
        let w = (wb & 63) as i16 + 1; let mn = mnb as i16; let mx = mxb as i16;
        kani::assume(mn < mx);
        kani::assume(mn + w <= mx && mn + 2 * w > mx);
        let (bins, nb) = ndarray_stats::verif_hooks::verif_equispaced(w, mn, mx).unwrap();
        assert!(nb == 2 && bins.len() == 2);
        assert!(bins.index(0) == (mn..mn + w) && bins.index(1) == (mn + w..mn + 2 * w));
        assert!(bins.index_of(&mx) == Some(1) && bins.index_of(&mn) == Some(0));
    }

    // C18: bulk quantiles vs single, sharing indexes, Midpoint
    #[kani::proof]
    #[kani::unwind(6)]
    fn bulk_vs_single_q() {
        let vb: [u8; 3] = kani::any();
        let vals = [(vb[0] & 15) as i16, (vb[1] & 15) as i16, (vb[2] & 15) as i16];
        let mut a = Array1::from(vals.to_vec());
        let mut b = a.clone(); let mut c = a.clone();
        unsafe { ndarray_stats::verif_hooks::CUT_AFTER = 0; }
        let qs = [n64(0.75), n64(0.25)];
        let r = a.quantiles_mut(&aview1(&qs), &Midpoint).unwrap();
        let r0 = b.quantile_mut(qs[0], &Midpoint).unwrap();
        let r1 = c.quantile_mut(qs[1], &Midpoint).unwrap();
        assert!(r.len() == 2 && r[0] == r0 && r[1] == r1);
    }

    #[kani::proof]
    #[kani::unwind(3)]
    fn equispaced_build_k1() {
        let wb: u8 = kani::any(); let mnb: i8 = kani::any(); let mxb: i8 = kani::any();
        let w = (wb & 63) as i16 + 1; let mn = mnb as i16; let mx = mxb as i16;
        kani::assume(mn < mx);
        kani::assume(mn + w > mx);
        let (bins, nb) = ndarray_stats::verif_hooks::verif_equispaced(w, mn, mx).unwrap();
        assert!(nb == 1 && bins.len() == 1);
        assert!(bins.index(0) == (mn..mn + w));
        assert!(bins.index_of(&mx) == Some(0) && bins.index_of(&mn) == Some(0));
    }

    /// Reference model of std's unstable sort: plain insertion sort.
    fn model_sort<T, F: FnMut(&T, &T) -> bool>(v: &mut [T], is_less: &mut F) {
        let mut i = 1;
        while i < v.len() {
            let mut j = i;
            while j > 0 && is_less(&v[j], &v[j - 1]) { v.swap(j, j - 1); j -= 1; }
            i += 1;
        }
    }

    #[kani::proof]
    #[kani::unwind(5)]
    #[kani::stub(core::slice::sort::unstable::sort, model_sort)]
    fn equispaced_build_k2c() {
        let wb: u8 = kani::any(); let mnb: i8 = kani::any(); let mxb: i8 = kani::any();
        let w = (wb & 63) as i16 + 1; let mn = mnb as i16; let mx = mxb as i16;
        kani::assume(mn < mx);
        kani::assume(mn + 2 * w > mx);
        let (bins, nb) = ndarray_stats::verif_hooks::verif_equispaced(w, mn, mx).unwrap();
        assert!(nb >= 1 && nb <= 2 && bins.len() == nb);
        assert!(bins.index(0) == (mn..mn + w));
        if nb == 2 { assert!(bins.index(1) == (mn + w..mn + 2 * w)); }
        assert!(bins.index_of(&mx) == Some(nb - 1) && bins.index_of(&mn) == Some(0));
        kani::cover!(nb == 2, "two bins reachable");
    }

    #[kani::proof]
    #[kani::unwind(4)]
    fn equispaced_build_k2b() {
        let wb: u8 = kani::any(); let mnb: i8 = kani::any(); let mxb: i8 = kani::any();
        let w = (wb & 63) as i16 + 1; let mn = mnb as i16; let mx = mxb as i16;
        kani::assume(mn < mx);
        kani::assume(mn + w <= mx && mn + 2 * w > mx);
        let (bins, nb) = ndarray_stats::verif_hooks::verif_equispaced(w, mn, mx).unwrap();
        assert!(nb == 2 && bins.len() == 2);
        assert!(bins.index(0) == (mn..mn + w) && bins.index(1) == (mn + w..mn + 2 * w));
        assert!(bins.index_of(&mx) == Some(1) && bins.index_of(&mn) == Some(0));
    }

    #[kani::proof]
    #[kani::unwind(7)]
    #[kani::stub(core::slice::sort::unstable::sort, model_sort)]
    fn equispaced_build_i16_all() {
        let wb: u8 = kani::any(); let mnb: i8 = kani::any(); let mxb: i8 = kani::any();
        let w = (wb & 63) as i16 - 8; let mn = mnb as i16; let mx = mxb as i16;
        kani::assume(w <= 0 || mn >= mx || mn + 4 * w > mx);
        match ndarray_stats::verif_hooks::verif_equispaced(w, mn, mx) {
            Err(_) => assert!(w <= 0 || mn >= mx),
            Ok((bins, nb)) => {
                assert!(w > 0 && mn < mx);
                assert!(nb >= 1 && nb <= 4 && bins.len() == nb);
                for k in 0..4 { if k < nb { assert!(bins.index(k) == (mn + (k as i16) * w..mn + (k as i16 + 1) * w)); } }
                assert!(bins.index_of(&mx) == Some(nb - 1) && bins.index_of(&mn) == Some(0));
                kani::cover!(nb == 4, "four bins reachable");
            }
        }
    }

    #[kani::proof]
    #[kani::unwind(6)]
    #[kani::stub(core::slice::sort::unstable::sort, model_sort)]
    fn equispaced_build_n64_all() {
        let w: f64 = kani::any(); let mn: f64 = kani::any(); let mx: f64 = kani::any();
        kani::assume(w > 0.001 && w < 1000.0 && mn > -1000.0 && mn < mx && mx < 1000.0);
        kani::assume(mn + w + w + w > mx);
        let (bins, nb) = ndarray_stats::verif_hooks::verif_equispaced(n64(w), n64(mn), n64(mx)).unwrap();
        assert!(bins.len() == nb && nb >= 1 && nb <= 3);
        assert!(bins.index(0).start == n64(mn));
        assert!(bins.index_of(&n64(mx)) == Some(nb - 1), "maximum in the last bin");
        assert!(bins.index_of(&n64(mn)) == Some(0));
    }

    #[kani::proof]
    fn interp_kernels_i8_region_complement() {
        let l: i8 = kani::any(); let h: i8 = kani::any();
        kani::assume(l <= h);
        kani::assume((h as i16) - (l as i16) <= 127); // complement of the known-finding region
        let qf: f64 = kani::any(); kani::assume(qf >= 0.0 && qf <= 1.0);
        let len: usize = kani::any(); kani::assume(len >= 1 && len <= 64);
        let q = n64(qf);
        let m = <Midpoint as Interpolate<i8>>::interpolate(Some(l), Some(h), q, len);
        assert!(l <= m && m <= h);
        let twice = 2 * (m as i16); let sum = (l as i16) + (h as i16);
        assert!(twice - sum <= 2 && sum - twice <= 2);
        let x = <Linear as Interpolate<i8>>::interpolate(Some(l), Some(h), q, len);
        assert!(l <= x && x <= h);
        let n = <Nearest as Interpolate<i8>>::interpolate(Some(l), Some(h), q, len);
        assert!(n == l || n == h);
    }

    #[kani::proof]
    fn interp_midpoint_i8_region() {
        let l: i8 = kani::any(); let h: i8 = kani::any();
        kani::assume(l <= h);
        kani::assume((h as i16) - (l as i16) > 127); // the known-finding region
        let m = <Midpoint as Interpolate<i8>>::interpolate(Some(l), Some(h), n64(0.5), 2);
        assert!(l <= m && m <= h);
    }

    #[kani::proof]
    fn index_arith() {
        let qf: f64 = kani::any();
        kani::assume(qf >= 0.0 && qf <= 1.0);
        let len: usize = kani::any();
        kani::assume(len >= 1 && len <= 64);
        let q = n64(qf);
        let lo = ndarray_stats::verif_hooks::verif_lower_index(q, len);
        let hi = ndarray_stats::verif_hooks::verif_higher_index(q, len);
        assert!(lo <= hi);
        assert!(hi <= len - 1);
        assert!(hi - lo <= 1);
    }

    #[kani::proof]
    #[kani::unwind(5)]
    fn quantile_lower_n3() {
        let vals: [i8; 3] = kani::any();
        let mut a = Array1::from(vals.to_vec());
        let r = a.quantile_mut(n64(0.5), &Lower).unwrap();
        let mut lt = 0usize; let mut le = 0usize;
        for t in 0..3 { if vals[t] < r { lt += 1; } if vals[t] <= r { le += 1; } }
        assert!(lt <= 1 && 1 < le);
    }
}
