use ndarray::prelude::*;
use ndarray_stats::*;
use ndarray_stats::interpolate::*;
use noisy_float::types::n64;
#[test]
fn midpoint_signed_extremes() {
    let r = std::panic::catch_unwind(|| { let mut a = array![i8::MIN, i8::MAX]; a.quantile_mut(n64(0.5), &Midpoint) });
    println!("midpoint [i8::MIN,i8::MAX] q=.5 -> {:?}", r.map_err(|_| "panic"));
    let r = std::panic::catch_unwind(|| { let mut a = array![i8::MIN, i8::MAX]; a.quantile_mut(n64(0.9), &Linear) });
    println!("linear [i8::MIN,i8::MAX] q=.9 -> {:?}", r.map_err(|_| "panic"));
    let r = std::panic::catch_unwind(|| { let mut a = array![-100i8, 100]; a.quantile_mut(n64(0.5), &Midpoint) });
    println!("midpoint [-100,100] q=.5 -> {:?}", r.map_err(|_| "panic"));
}
#[test]
fn cov_empty() {
    let a = Array2::<f64>::zeros((0, 2));
    println!("cov (0,2): {:?}", a.cov(1.).map(|c| c.shape().to_vec()));
    let r = std::panic::catch_unwind(|| { let a = Array2::<f64>::zeros((2, 0)); a.cov(0.).map(|c| c.shape().to_vec()) });
    println!("cov (2,0) ddof 0: {:?}", r.map_err(|_| "panic"));
}
